------------------------------- MODULE Window -------------------------------
(***************************************************************************)
(* C13: every read is confined to the requested time window and signal.    *)
(*                                                                         *)
(* Time is in ticks of 15 minutes over three days (day = 96 ticks; the     *)
(* 30 min safety margin of FormatFromDate is 2 ticks, so that instants     *)
(* INSIDE the margin exist - with 30 min ticks a bound like                *)
(* utcDate(to - 30 min) could never be seen to miss; the concrete binding  *)
(* uses Nov 29, Nov 30, Dec 1 2023: a month boundary).  A request asks for *)
(* the window [from, to) (or [from, to] for APIs whose end is inclusive)   *)
(* of one signal.  A SCAN DESCRIPTOR says how one statement of the reader  *)
(* restricts one base table:                                               *)
(*   kind   "data"  rows carry a timestamp (samples_v3, metrics_15s,       *)
(*                  tempo_traces, profiles)                                *)
(*          "index" rows carry a date (time_series, time_series_gin,       *)
(*                  tempo_traces_kv, the profiles_series tables)           *)
(*          "both"  rows carry both (tempo_traces_attrs_gin)               *)
(*   wrule  the WRITER's date rule for the table: "utc" = UTC day of the   *)
(*          sample (builder.go truncates the UTC time to 24 h for series;  *)
(*          profile tables: toDate() in the materialized views; tempo tags *)
(*          since the writer passes time.Unix(sec, 0).UTC()), "local" =    *)
(*          day in the writer process's zone (ch-go ToDate of a local      *)
(*          time.Unix(sec, 0) adds the zone offset: tempo tags before that *)
(*          repair).  The driver observes which rule the real writer       *)
(*          follows; it is not assumed.                                    *)
(*   agg15  the table stores the start of the sample's 15 s bucket         *)
(*   tlo/thi timestamp bounds: operator, and how the literal is derived    *)
(*          from the request end: as is, truncated to seconds, to 15 s, to *)
(*          the range bucket (floor / proper ceiling / floor + bucket /    *)
(*          "ceilps": proper ceiling of the end TRUNCATED TO THE SECOND    *)
(*          first - a controller that drops the fraction and then rounds   *)
(*          up stays below a fractional end whose second is aligned);      *)
(*          sub = TRUE: the literal is not the named function itself but   *)
(*          lies somewhere in its second, at or below it - a bound whose   *)
(*          sub-second part was lost or garbled on the way to the          *)
(*          statement (the model takes the worst case, the start of the    *)
(*          second)                                                        *)
(*   shift  sub-second part of what lies between the API parameters and    *)
(*          the data window (PromQL range / offset with a millisecond      *)
(*          part): the planners align the PARAMETERS (from + shift,        *)
(*          to + shift) and subtract the shift afterwards                  *)
(*   dlo/dhi date bounds: which date function of from / to                 *)
(*   tyf/tys type filter                                                   *)
(*   ph     the STEP FILTER of sparse range queries: a range-vector        *)
(*          function over PRange evaluated every PStep > PRange needs, for *)
(*          the evaluation at t, the samples of [t - PRange, t] only; the  *)
(*          evaluation instants are from + PRange + k * PStep <= to (from  *)
(*          is the start of the data window: first evaluation - range).    *)
(*          The planner may skip the gaps with a predicate on the position *)
(*          of the sample within the step, pos = (ts - anchor) % PStep:    *)
(*          "pos = 0 OR pos >= PStep - PRange".  on: the scan has such a   *)
(*          filter; eq0: the clause for position 0 (the evaluation instant *)
(*          itself); op / c: the comparison (ge | gt | none) and how its   *)
(*          constant relates to PStep - PRange (-1 below, 0 equal, 1       *)
(*          above); anchor: what position 0 is - "eval" the evaluation     *)
(*          instants, "start" the starts of the range windows, "other"     *)
(*   sig, metric, upIncl: the API: signal asked for (0 = the API has one   *)
(*          signal), metric query (widening allowed), end inclusive        *)
(* The set of descriptors is a generated constant: it is extracted from    *)
(* the SQL the real endpoints execute (harness/cmd/c13).                   *)
(*                                                                         *)
(* Leak(d, ..)  an admitted row is outside what the statement may read:    *)
(*              the window, for metric queries widened to the enclosing    *)
(*              15 s / range-bucket boundaries (index tables: the days the *)
(*              window touches, with the 30 min safety margin), or is of   *)
(*              the other signal                                           *)
(* Miss(d, ..)  a row inside the window, of the requested signal, whose    *)
(*              index row is stored under the writer's day, is rejected by *)
(*              a date bound or the type filter; or (tables with a         *)
(*              timestamp) whose stored timestamp is STRICTLY inside the   *)
(*              window is rejected by a timestamp bound or the type filter *)
(*              (strictly: whether the instants from / to themselves       *)
(*              belong to the window is the API's convention, not a matter *)
(*              of this property)                                          *)
(*                                                                         *)
(* Sub-second resolution.  The quanta are nested like the real ones: the   *)
(* second has INTERIOR instants (QSec = 3 ticks: positions 1 and 2 stand   *)
(* for a fractional millisecond / nanosecond part), 15 s is a multiple of  *)
(* the second, the range bucket a multiple of the second but not of 15 s.  *)
(* A bound that falls back to the start of the second of a fractional end  *)
(* therefore has rows strictly between it and the end (Miss on the upper   *)
(* side, Leak on the lower side of a query that may not widen).  The       *)
(* binding concretises position p of a tick within its second as a         *)
(* fractional part (p = 0: whole second) and the position within 15 s as   *)
(* whole seconds, on every API whose unit can express it.                  *)
(***************************************************************************)
EXTENDS Integers, FiniteSets, TLC

CONSTANTS
    DescSeq,    \* sequence of descriptor records
    Ticks,      \* row timestamps and window ends
    DayTicks,   \* 96
    Margin,     \* 2 ticks = 30 min (FormatFromDate's safety margin)
    QSec, Q15, QBucket,  \* abstract sizes of the widening quanta (second, 15 s, range bucket), in ticks
    Zones,      \* zone offsets of reader / writer processes, in ticks
    Types,      \* signal types of rows: 0 (legacy "both"), 1 logs, 2 metrics
    PStep, PRange  \* abstract step and range of sparse range queries (PStep > PRange), in ticks

Day(t) == t \div DayTicks
Floor(t, q) == (t \div q) * q
Quantum(w) == CASE w = "sec" -> QSec [] w = "s15" -> Q15 [] w = "bucket" -> QBucket [] OTHER -> 1
Min2(a, b) == IF a < b THEN a ELSE b
Max2(a, b) == IF a > b THEN a ELSE b

\* how a planner derives a literal from one end of the request
Derive(t, w, dir) ==
    IF w = "none" THEN t
    ELSE LET q == Quantum(w) f == Floor(t, q)
             s == Floor(t, QSec)     \* the end with its fraction dropped (time.Unix(t.Unix(), 0), int64(float))
         IN CASE dir = "floor" -> f
              [] dir = "ceilp" -> IF f = t THEN t ELSE f + q
              [] dir = "ceilps" -> IF Floor(s, q) = s THEN s ELSE Floor(s, q) + q
              [] OTHER -> f + q          \* "ceilx": Truncate(d).Add(d)

-----------------------------------------------------------------------------
\* the literal of a timestamp bound: the named derivation of the API parameter (data instant + shift), shifted back;
\* sub: cut to the start of the second it lies in
BoundLit(t, w, dir, sub, sh) ==
    LET x == Derive(t + sh, w, dir) - sh IN IF sub THEN Floor(x, QSec) ELSE x

\* the mechanism: one operator per predicate the planners emit.  B is the record of literals the statement carries for
\* one request (Lits below): they are computed once per request, as the planner does.

HasTs(d) == d.kind \in {"data", "both"}
HasDate(d) == d.kind \in {"index", "both"}

\* what the table stores for a sample at ts
StoredTs(d, ts) == IF d.agg15 THEN Floor(ts, Q15) ELSE ts
WriterDay(d, ts, tzw) == IF d.wrule = "local" THEN Day(ts + tzw) ELSE Day(ts)

Far == 100000
DLoLit(d, from, tzr) ==
    CASE d.dlo = "none" -> 0 - Far
      [] d.dlo = "utcFromM30" -> Day(from - Margin)             \* FormatFromDate(from)
      [] d.dlo = "utcFrom" -> Day(from)
      [] d.dlo = "localFrom" -> Day(from + tzr)                 \* from.Format("2006-01-02") in the reader's zone
      [] d.dlo = "localFromM30" -> Day(from - Margin + tzr)
DHiLit(d, to, tzr) ==
    CASE d.dhi = "none" -> Far
      [] d.dhi = "utcTo" -> Day(to)
      [] d.dhi = "localTo" -> Day(to + tzr)                     \* to.Format("2006-01-02") in the reader's zone
      [] d.dhi = "utcToM30" -> Day(to - Margin)                 \* FormatFromDate(to)
      [] d.dhi = "localToM30" -> Day(to - Margin + tzr)

\* metric queries may widen to the enclosing 15 s and range-bucket boundaries (the definition's side)
OuterLo(d, from) == IF d.metric THEN Min2(Floor(from + d.shift, Q15), Floor(from + d.shift, QBucket)) - d.shift ELSE from
HiPoint(d, to) == IF d.metric THEN Max2(Floor(to + d.shift, Q15) + Q15, Floor(to + d.shift, QBucket) + QBucket) - d.shift ELSE to
OuterHi(d, to) == IF d.upIncl THEN HiPoint(d, to) ELSE HiPoint(d, to) - 1   \* inclusive

Lits(d, from, to, tzr, tzw) ==
    [ from |-> from, to |-> to,
      tl |-> BoundLit(from, d.tlo.w, "floor", d.tlo.sub, d.shift), th |-> BoundLit(to, d.thi.w, d.thi.dir, d.thi.sub, d.shift),
      dl |-> DLoLit(d, from, tzr), dh |-> DHiLit(d, to, tzr),
      \* the definition's side: what may be read at most
      ol |-> OuterLo(d, from), oh |-> OuterHi(d, to),
      al |-> WriterDay(d, OuterLo(d, from) - Margin, tzw), ah |-> WriterDay(d, HiPoint(d, to), tzw) ]

TsLoOK(d, B, sts) == d.tlo.op = "none" \/ (d.tlo.op = "ge" /\ sts >= B.tl) \/ (d.tlo.op = "gt" /\ sts > B.tl)
TsHiOK(d, B, sts) == d.thi.op = "none" \/ (d.thi.op = "lt" /\ sts < B.th) \/ (d.thi.op = "le" /\ sts <= B.th)
DateOK(d, B, date) == date >= B.dl /\ date <= B.dh
TyOK(d, ty) == d.tyf = "none" \/ ty \in d.tys

\* the step filter: position of the stored timestamp within the step, counted from the filter's anchor
PhaseAnchor(d, B) == CASE d.ph.anchor = "eval" -> B.from + PRange [] d.ph.anchor = "start" -> B.from [] OTHER -> B.from + 1
PhasePos(d, B, sts) == (sts - PhaseAnchor(d, B)) % PStep
PhaseOK(d, B, sts) ==
    \/ ~ d.ph.on
    \/ d.ph.eq0 /\ PhasePos(d, B, sts) = 0
    \/ d.ph.op = "ge" /\ PhasePos(d, B, sts) >= PStep - PRange + d.ph.c
    \/ d.ph.op = "gt" /\ PhasePos(d, B, sts) > PStep - PRange + d.ph.c

TimeAdmitted(d, B, tzw, ts) ==
    /\ HasTs(d) => (TsLoOK(d, B, StoredTs(d, ts)) /\ TsHiOK(d, B, StoredTs(d, ts)) /\ PhaseOK(d, B, StoredTs(d, ts)))
    /\ HasDate(d) => DateOK(d, B, WriterDay(d, ts, tzw))
Admitted(d, B, tzw, ts, ty) == TimeAdmitted(d, B, tzw, ts) /\ TyOK(d, ty)

-----------------------------------------------------------------------------
\* the definition: what the property allows / demands

RightSignal(d, ty) == d.sig = 0 \/ ty \in {d.sig, 0}
JudgedByTs(d) == d.kind = "data" \/ (d.kind = "both" /\ (d.tlo.op # "none" \/ d.thi.op # "none"))

\* data tables: the (widened) window; index tables work by day: the days (in the writer's numbering) the window
\* touches, with the 30 min margin
TimeAllowed(d, B, tzw, ts) ==
    IF JudgedByTs(d) THEN StoredTs(d, ts) >= B.ol /\ StoredTs(d, ts) <= B.oh
    ELSE WriterDay(d, ts, tzw) >= B.al /\ WriterDay(d, ts, tzw) <= B.ah

Leak(d, B, tzw, ts, ty) == Admitted(d, B, tzw, ts, ty) /\ ~ (RightSignal(d, ty) /\ TimeAllowed(d, B, tzw, ts))

Required(d, B, ts, ty) ==
    /\ ts >= B.from
    /\ ts < B.to \/ (d.upIncl /\ ts = B.to)
    /\ d.sig = 0 \/ ty = d.sig

\* the stored timestamp lies strictly inside the requested window
Interior(d, B, ts) == StoredTs(d, ts) > B.from /\ StoredTs(d, ts) < B.to
\* rejected by a date bound (index rows) / by a timestamp bound (rows that carry a timestamp)
DateMiss(d, B, tzw, ts) == HasDate(d) /\ ~ DateOK(d, B, WriterDay(d, ts, tzw))
TsMiss(d, B, ts) == HasTs(d) /\ Interior(d, B, ts) /\ ~ (TsLoOK(d, B, StoredTs(d, ts)) /\ TsHiOK(d, B, StoredTs(d, ts)))

\* the definition's side of sparse range queries: the stored timestamp lies in the range window [t - PRange, t] of an
\* evaluation instant t = from + PRange + k * PStep <= to (both edges: the engine reads t - range <= ts <= t)
InRangeWindow(B, sts) ==
    LET pos == (sts - (B.from + PRange)) % PStep
        t == IF pos = 0 THEN sts ELSE sts + (PStep - pos)
    IN sts >= B.from /\ t <= B.to /\ (pos = 0 \/ pos >= PStep - PRange)
\* ... and the step filter rejects it (strictly inside the whole window, like TsMiss)
PhaseMiss(d, B, ts) == HasTs(d) /\ d.ph.on /\ Interior(d, B, ts) /\ InRangeWindow(B, StoredTs(d, ts)) /\ ~ PhaseOK(d, B, StoredTs(d, ts))

Miss(d, B, tzw, ts, ty) ==
    /\ Required(d, B, ts, ty)
    /\ \/ DateMiss(d, B, tzw, ts)
       \/ TsMiss(d, B, ts)
       \/ PhaseMiss(d, B, ts)
       \/ ~ TyOK(d, ty)

\* witnesses.  The search is factored (types are independent of time) so that one request costs |Ticks| + |Types|
\* evaluations; MC_Window!WitnessSound / WitnessComplete tie the result to Leak / Miss above.
None == <<-1, -1>>
LeakWitness(d, B, tzw) ==
    LET okTy == {ty \in Types : TyOK(d, ty)}
        badTy == {ty \in okTy : ~ RightSignal(d, ty)}
        bad(ts) == TimeAdmitted(d, B, tzw, ts) /\ (badTy # {} \/ ~ TimeAllowed(d, B, tzw, ts))
    IN IF okTy # {} /\ \E ts \in Ticks : bad(ts)
       THEN LET ts == CHOOSE t \in Ticks : bad(t)
            IN <<ts, IF badTy # {} THEN CHOOSE ty \in badTy : TRUE ELSE CHOOSE ty \in okTy : TRUE>>
       ELSE None
MissWitness(d, B, tzw) ==
    LET reqTy == {ty \in Types : d.sig = 0 \/ ty = d.sig}
        badTy == {ty \in reqTy : ~ TyOK(d, ty)}
        inWin(ts) == ts >= B.from /\ (ts < B.to \/ (d.upIncl /\ ts = B.to))
        bad(ts) == inWin(ts) /\ (badTy # {} \/ DateMiss(d, B, tzw, ts) \/ TsMiss(d, B, ts) \/ PhaseMiss(d, B, ts))
    IN IF reqTy # {} /\ \E ts \in Ticks : bad(ts)
       THEN LET ts == CHOOSE t \in Ticks : bad(t)
            IN <<ts, IF badTy # {} THEN CHOOSE ty \in badTy : TRUE ELSE CHOOSE ty \in reqTy : TRUE>>
       ELSE None
=============================================================================

---------------------------- MODULE MC_ProfSeries ----------------------------
(* Case enumeration + export for X05.  A state is a database (a sequence of ingested profiles, built one profile at a  *)
(* time, timestamps non-decreasing) and, in the leaves, one request of the configuration's request plan.  In every      *)
(* leaf TLC checks: the mechanism with every quirk repaired equals the definition (MechEqDef), every difference between *)
(* the mechanism as coded and the definition is accounted for by a single quirk (QuirksExplain), and the laws that tie  *)
(* the definitions of the endpoints together (Laws).  For the databases selected by ExportMod / ExportSeed the case is   *)
(* printed as JSON (database, request, the definition's answer, the as-coded answer, the quirks that fire) for          *)
(* harness/cmd/x05.                                                                                                     *)
EXTENDS ProfSeries, Json

CONSTANTS
    TypeReqs,    \* sequence of type ids [name, st, su, pt, pu] a request may ask for
    SelSeq,      \* sequence of selectors (<<>> or <<name, value>>); SelSeq[1] = <<>>
    GbSeq,       \* sequence of group_by lists; GbSeq[1] = <<>>
    WinSeq,      \* sequence of windows <<s, e>> (ticks 0 or 1 of a bucket); WinSeq[1] = the whole time line
    NameSeq,     \* label names LabelValues is asked for
    LnSeq,       \* label_names lists of Series; LnSeq[1] = <<>>
    Plan,        \* "T" (time series) | "M" (merged profile) | "L" (types, labels, series, stats, analyze) | "A" (all)
    ExportMod, ExportSeed,
    Repaired     \* the quirks of ProfSeries!AllQuirks the code no longer has (x05.py: REPAIRED); they stay mutations of the mechanism

VARIABLES db, req
vars == <<db, req>>

(******************************* the pools *********************************)
S(n, v) == <<n, v>>
MCSvc1 == <<"s1">>
MCSvc2 == <<"s1", "s2">>
\* tag sequences in INGEST order; entries 1 and 2 agree on {a, b} but list them in a different order
MCTags4 == << <<S("a", "1"), S("b", "1")>>, <<S("b", "1"), S("a", "1"), S("c", "1")>>, <<S("a", "2")>>, <<>> >>
MCTags3 == << <<S("a", "1"), S("b", "1")>>, <<S("b", "1"), S("a", "1"), S("c", "1")>>, <<S("a", "2")>> >>
MCTags2 == << <<S("a", "1")>>, <<S("a", "2"), S("b", "1")>> >>
MCTagsO == << <<S("a", "1"), S("b", "1")>>, <<S("b", "1"), S("a", "1"), S("c", "1")>> >>      \* the pair that differs in order only on {a, b}
MCTL1 == << <<S("x", "u")>> >>
MCTL2 == << <<S("x", "u")>>, <<S("x", "u"), S("y", "v")>> >>
MCTL3 == << <<S("x", "u")>>, <<S("x", "u"), S("y", "v")>>, <<S("y", "v"), S("x", "u")>> >>
MCPer1 == << <<"N1", "p1", "q1">> >>
MCPer2 == << <<"N1", "p1", "q1">>, <<"N2", "p2", "q1">> >>
Smp(st, u) == [stack |-> st, unit |-> u]
MCBags1 == << <<Smp(<<"f">>, FALSE), Smp(<<"f", "g">>, FALSE)>> >>                                     \* two samples: count = 2
MCBagsM == << <<Smp(<<"f">>, FALSE)>>,
              <<Smp(<<"f", "g">>, FALSE), Smp(<<"g">>, FALSE)>>,
              <<Smp(<<"f">>, TRUE)>>,                                                                   \* a numeric label with a unit
              <<Smp(<<"nl", "g">>, FALSE)>>,                                                            \* a location without line info
              <<Smp(<<>>, FALSE), Smp(<<"f">>, FALSE)>>,                                                \* a sample without a stack
              <<>> >>                                                                                   \* no samples at all
MCBagsM3 == << <<Smp(<<"f">>, FALSE)>>, <<Smp(<<"f">>, TRUE), Smp(<<"f", "g">>, FALSE)>>, <<Smp(<<"nl", "g">>, FALSE)>> >>
Ty(n, st, su, pt, pu) == [name |-> n, st |-> st, su |-> su, pt |-> pt, pu |-> pu]
\* (x,u) and (y,v) are ingested pairs; (x,v) is a pair nobody ingested; N2 is the second period type
MCTypes3 == <<Ty("N1", "x", "u", "p1", "q1"), Ty("N1", "y", "v", "p1", "q1"), Ty("N1", "x", "v", "p1", "q1")>>
MCTypes4 == MCTypes3 \o <<Ty("N2", "x", "u", "p2", "q1")>>
MCSel2  == << <<>>, S("a", "1") >>
MCSel3  == << <<>>, S("a", "1"), S("service_name", "s1") >>
MCGb5   == << <<>>, <<"a">>, <<"a", "b">>, <<"service_name">>, <<"z">> >>
MCGb3   == << <<>>, <<"a">>, <<"a", "b">> >>
MCGb1   == << <<>> >>
\* Step = 4: ticks 4k and 4k+1 are whole milliseconds (window bounds), 4k+2 is 1 ns after 4k+1, 4k+3 is 1 ns before 4(k+1)
MCWin8  == << <<0, 8>>, <<4, 5>>, <<1, 4>>, <<5, 1>> >>            \* MaxT = 7: everything | bucket 1 up to its interior ms | from an interior ms to the next edge | empty
MCWin12 == << <<0, 12>>, <<4, 9>>, <<1, 8>>, <<5, 5>>, <<8, 4>> >>
MCWin3  == << <<0, 8>>, <<4, 5>>, <<1, 4>> >>
MCWin2  == << <<0, 8>>, <<1, 4>> >>
MCNames == <<"a", "b", "service_name", "__name__">>
MCLn3   == << <<>>, <<"a">>, <<"service_name", "zz">> >>

(****************************** the requests *******************************)
NoType == Ty("", "", "", "", "")
\* a request in the state: pool indices only
\* sel2 (0 = none): a second matcher, for the endpoints that take a list of matchers
R(ep, T, sel, gb, agg, w, name, ln, sel2) == [ep |-> ep, T |-> T, sel |-> sel, gb |-> gb, agg |-> agg, w |-> w, name |-> name, ln |-> ln, sel2 |-> sel2]
None == R("none", 0, 1, 1, "sum", 1, 0, 1, 0)
AllT == DOMAIN TypeReqs
PlanT == {R("SelectSeries", T, 1, gb, "sum", w, 0, 1, 0) : T \in AllT, gb \in DOMAIN GbSeq, w \in DOMAIN WinSeq}
         \cup {R("SelectSeries", T, sel, gb, "sum", 1, 0, 1, 0) : T \in AllT, sel \in DOMAIN SelSeq, gb \in DOMAIN GbSeq}
         \cup {R("SelectSeries", T, 1, gb, "avg", w, 0, 1, 0) : T \in AllT, gb \in DOMAIN GbSeq \cap {1, 2}, w \in DOMAIN WinSeq \cap {1, 2}}
         \cup {R("GetProfileStats", 0, 1, 1, "sum", 1, 0, 1, 0)}
PlanM == {R("SelectMergeProfile", T, sel, 1, "sum", w, 0, 1, 0) : T \in AllT, sel \in DOMAIN SelSeq, w \in DOMAIN WinSeq}
         \cup {R("AnalyzeQuery", 0, sel, 1, "sum", w, 0, 1, 0) : sel \in DOMAIN SelSeq, w \in DOMAIN WinSeq}
PlanL == {R("ProfileTypes", 0, 1, 1, "sum", 1, 0, 1, 0), R("GetProfileStats", 0, 1, 1, "sum", 1, 0, 1, 0)}
         \cup {R("LabelNames", 0, sel, 1, "sum", 1, 0, 1, 0) : sel \in DOMAIN SelSeq}
         \cup {R("LabelNames", 0, 2, 1, "sum", 1, 0, 1, sel2) : sel2 \in DOMAIN SelSeq \ {2}}
         \cup {R("LabelValues", 0, sel, 1, "sum", 1, n, 1, 0) : sel \in DOMAIN SelSeq, n \in DOMAIN NameSeq}
         \cup {R("LabelValues", 0, 2, 1, "sum", 1, n, 1, sel2) : sel2 \in DOMAIN SelSeq \ {1, 2}, n \in DOMAIN NameSeq}
         \cup {R("Series", 0, sel, 1, "sum", 1, 0, ln, sel2) : sel \in DOMAIN SelSeq, ln \in DOMAIN LnSeq, sel2 \in {0} \cup (DOMAIN SelSeq \ {1})}
         \cup {R("AnalyzeQuery", 0, sel, 1, "sum", w, 0, 1, 0) : sel \in DOMAIN SelSeq, w \in DOMAIN WinSeq}
Requests == CASE Plan = "T" -> PlanT [] Plan = "M" -> PlanM [] Plan = "L" -> PlanL [] OTHER -> PlanT \cup PlanM \cup PlanL

\* the request expanded
RQ == [ep |-> req.ep, T |-> IF req.T = 0 THEN NoType ELSE TypeReqs[req.T], sel |-> SelSeq[req.sel], gb |-> GbSeq[req.gb],
       agg |-> req.agg, s |-> WinSeq[req.w][1], e |-> WinSeq[req.w][2],
       name |-> IF req.name = 0 THEN "" ELSE NameSeq[req.name], ln |-> LnSeq[req.ln],
       \* the list of matchers: none (or {} alone, the driver's choice) | the one | the two, in this order
       sels |-> IF req.sel2 = 0 THEN (IF req.sel = 1 THEN <<>> ELSE <<SelSeq[req.sel]>>) ELSE <<SelSeq[req.sel], SelSeq[req.sel2]>>]

(******************************* behaviour *********************************)
Init == db = <<>> /\ req = None
AddProfile(p) ==
    /\ req = None
    /\ Len(db) < MaxProfiles
    /\ IF db = <<>> THEN TRUE ELSE p.t >= db[Len(db)].t
    /\ db' = Append(db, p)
    /\ UNCHANGED req
Ask(r) ==
    /\ req = None
    /\ req' = r
    /\ UNCHANGED db
Next == (\E p \in Profiles : AddProfile(p)) \/ (\E r \in Requests : Ask(r))
Spec == Init /\ [][Next]_vars

(******************************** answers **********************************)
Mech(Q) ==
    CASE req.ep = "SelectSeries"       -> MechSelectSeries(db, RQ, Q)
      [] req.ep = "SelectMergeProfile" -> MechMergeProfile(db, RQ, Q)
      [] req.ep = "ProfileTypes"       -> [types |-> MechProfileTypes(db)]
      [] req.ep = "LabelNames"         -> [names |-> MechLabelNames(db, RQ.sels)]
      [] req.ep = "LabelValues"        -> [names |-> MechLabelValues(db, RQ.name, RQ.sels)]
      [] req.ep = "Series"             -> [sets |-> MechSeries(db, RQ, Q)]
      [] req.ep = "AnalyzeQuery"       -> MechAnalyze(db, RQ)
      [] req.ep = "GetProfileStats"    -> MechStats(db)
      [] OTHER                         -> [none |-> TRUE]
Def ==
    CASE req.ep = "SelectSeries"       -> DefSelectSeries(db, RQ)
      [] req.ep = "SelectMergeProfile" -> DefMergeProfile(db, RQ)
      [] req.ep = "ProfileTypes"       -> [types |-> DefProfileTypes(db)]
      [] req.ep = "LabelNames"         -> [names |-> DefLabelNames(db, RQ.sels)]
      [] req.ep = "LabelValues"        -> [names |-> DefLabelValues(db, RQ.name, RQ.sels)]
      [] req.ep = "Series"             -> [sets |-> DefSeries(db, RQ)]
      [] req.ep = "AnalyzeQuery"       -> DefAnalyze(db, RQ)
      [] req.ep = "GetProfileStats"    -> DefStats(db)
      [] OTHER                         -> [none |-> TRUE]
\* the code as it is
AsCoded == AllQuirks \ Repaired
\* the quirks an endpoint's mechanism reads at all (the others cannot change its answer)
EpQuirks == CASE req.ep = "SelectSeries"       -> {"avg_sql", "avg_per_sample", "type_cross", "dup_series", "groupby_order"}
              [] req.ep = "SelectMergeProfile" -> {"type_cross", "merge_lineless", "merge_emptystack", "merge_incompatible", "stale_unit"}
              [] req.ep = "Series"             -> {"dup_labelsets", "names_ignored", "second_matcher_lost"}
              [] OTHER                         -> {}
\* the quirks of Q that fire: switching one off changes the answer ma = Mech(Q)
FiredOf(ma, Q) == {q \in Q \cap EpQuirks : ma # Mech(Q \ {q})}

(******************************* invariants ********************************)
\* the mechanism with every quirk repaired is the definition
MechEqDef     == Mech({}) = Def
\* wherever the mechanism with every quirk, or the mechanism as coded, differs from the definition, switching off one single
\* quirk changes its answer
QuirksExplain == /\ LET ma == Mech(AllQuirks) IN ma # Def => FiredOf(ma, AllQuirks) # {}
                 /\ LET ma == Mech(AsCoded)   IN ma # Def => FiredOf(ma, AsCoded) # {}
Laws ==
    CASE req.ep = "SelectSeries"       -> LawConservation(db, RQ) /\ LawGrouping(db, RQ) /\ LawTypes(db, RQ.T)
      [] req.ep = "SelectMergeProfile" -> LawMergeTotal(db, RQ)
      [] req.ep = "LabelNames"         -> LawLabels(db, RQ.sels)
      [] OTHER                         -> TRUE

(********************************* export **********************************)
DbHash == SumF([i \in Idx(db) |-> (IF i = 1 THEN 17 ELSE IF i = 2 THEN 19 ELSE 23) *
                                  (db[i].svc + 3 * db[i].tags + 17 * db[i].tl + 31 * db[i].per + 61 * db[i].bag + 101 * db[i].t)]) + Len(db)
\* the quirks that turn an answer into an error hide what the other quirks would do to it: when the as-coded answer is an
\* error, the case also carries the answer (coded2) and the firing quirks (fired2) of the mechanism without the error
\* quirks, so that a code base in which an error quirk has been repaired is still recognised
ErrQuirks == {"avg_sql", "merge_lineless", "merge_emptystack", "merge_incompatible"}
IsErr(a)  == IF req.ep \in {"SelectSeries", "SelectMergeProfile"} THEN a.err # {} ELSE FALSE
\* the answer and the firing quirks of Mech(Q \ ErrQuirks) when ma = Mech(Q) is an error
Second(ma, Q, d) == IF IsErr(ma) THEN LET m2 == Mech(Q \ ErrQuirks) IN [ans |-> m2, fired |-> IF m2 = d THEN {} ELSE FiredOf(m2, Q \ ErrQuirks)]
                    ELSE [ans |-> ma, fired |-> {}]
\* coded / fired (coded2 / fired2): the prediction for the code as it is, AsCoded.  mut / mutfired (mut2 / mutfired2): the
\* mechanism with EVERY quirk, the repaired ones included: where a repaired quirk would fire, and what a code base that has
\* it again would answer (equal to coded / fired while nothing is repaired)
CaseRec(d, ma, fired, mm, mfired) ==
    LET s2 == Second(ma, AsCoded, d)
        t2 == IF Repaired = {} THEN s2 ELSE Second(mm, AllQuirks, d)
    IN
    [db    |-> [i \in Idx(db) |-> [svc |-> Svc(db[i]), tags |-> Tags(db[i]), tl |-> TL(db[i]), per |-> Per(db[i]),
                                   bag |-> Bag(db[i]), t |-> db[i].t]],
     step  |-> Step,
     req   |-> RQ,
     def   |-> d,
     coded |-> ma,
     fired |-> fired,
     \* the optional answers are sequences of 0 or 1 answer: <<>> = "the same as the one before" (coded2: as coded, mut: as coded,
     \* mut2: as mut)
     coded2 |-> IF IsErr(ma) THEN <<s2.ans>> ELSE <<>>,
     fired2 |-> IF IsErr(ma) THEN s2.fired ELSE fired,
     mut    |-> IF mm = ma THEN <<>> ELSE <<mm>>,
     mutfired |-> mfired,
     mut2   |-> IF IsErr(mm) THEN <<t2.ans>> ELSE <<>>,
     mutfired2 |-> IF IsErr(mm) THEN t2.fired ELSE mfired]
Selected == req.ep # "none" /\ ExportMod # 0 /\ (DbHash + ExportSeed) % ExportMod = 0

\* the three invariants above and the export in ONE evaluation of the definition and of the mechanisms per state
\* (x05.py checks this one; when it fails the run is repeated with the three named invariants to say which)
AllChecks ==
    LET d      == Def
        ma     == Mech(AsCoded)
        fired  == IF ma = d THEN {} ELSE FiredOf(ma, AsCoded)
        mm     == IF Repaired = {} THEN ma ELSE Mech(AllQuirks)
        mfired == IF Repaired = {} THEN fired ELSE IF mm = d THEN {} ELSE FiredOf(mm, AllQuirks)
    IN  /\ Mech({}) = d
        /\ ma # d => fired # {}
        /\ mm # d => mfired # {}
        /\ Laws
        /\ Selected => PrintT(<<"X05CASE", ToJson(CaseRec(d, ma, fired, mm, mfired))>>)
=============================================================================

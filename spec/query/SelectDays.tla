----------------------------- MODULE SelectDays -----------------------------
(***************************************************************************)
(* C17, the DAY dimension of "each selected series is handed to the engine *)
(* once, under its own label set".                                         *)
(*                                                                         *)
(* A Prometheus Select is answered in three statements: the label index    *)
(* (time_series_gin) names the fingerprints, samples_v3 delivers the       *)
(* samples of [start, end], time_series resolves fingerprint -> label set. *)
(* The first and the third are confined by DATE bounds derived from the    *)
(* instants start / end inside the reader process, whereas the rows carry  *)
(* the day the WRITER gave them: the UTC day of the sample (one row per    *)
(* series per UTC day with a sample).  Selector.tla has no time at all:    *)
(* its databases live on one day, in the middle of it, and the reader runs *)
(* in UTC.  This module adds the missing dimensions:                       *)
(*   - time in ticks over Days UTC days of DayTicks ticks,                 *)
(*   - the zone of the reader process (offset in ticks, both signs),       *)
(*   - windows [ws, we] on every position relative to the UTC midnights,   *)
(*   - series SHAPES: the set of ticks at which a series has a sample; the *)
(*     index rows are on the UTC days of these ticks (RowDays) -- a series *)
(*     born today has no row yesterday, a series that ended yesterday none *)
(*     today.                                                              *)
(* DEFINITION  a series is selected iff it has a sample in [ws, we]; it is *)
(*             handed out under its labels with exactly these samples.     *)
(*             The zone does not occur in it.                              *)
(* MECHANISM   the series needs an index row whose day lies within         *)
(*             [Bound(lo, ws), Bound(hi, we)], where a bound rule is "utc" *)
(*             (day of the instant in UTC) or "local" (day of the instant  *)
(*             in the process zone).  The lower bound of the code is       *)
(*             widened by a 30 min margin; a margin only widens, the model *)
(*             takes the narrowest case (margin 0).                        *)
(* NoMiss: with both rules "utc" mechanism = definition for every zone,    *)
(* window and shape.  LocalRuleMisses: either rule "local" loses series in *)
(* some zone (the class of slips the binding must be able to see; checked  *)
(* as an ASSUME so that the cases provably contain the witnesses).         *)
(***************************************************************************)
EXTENDS Integers, FiniteSets, TLC

CONSTANTS Days, DayTicks, ZoneOffs, MaxLen, MaxSamples

Ticks == 0 .. (Days * DayTicks - 1)
Day(t) == t \div DayTicks
\* day of instant t on the wall clock of a zone z ticks east of UTC (floor division also below zero)
LDay(t, z) == ((t + z + DayTicks) \div DayTicks) - 1
Shapes == {S \in SUBSET Ticks : Cardinality(S) >= 1 /\ Cardinality(S) <= MaxSamples}
RowDays(S) == {Day(t) : t \in S}                 \* the writer's rule: UTC day of every sample
InWin(S, s, e) == {t \in S : s <= t /\ t <= e}
Windows == {w \in Ticks \X Ticks : w[1] <= w[2] /\ w[2] - w[1] <= MaxLen}

DefSelected(s, e) == {S \in Shapes : InWin(S, s, e) # {}}
Bound(rule, t, z) == IF rule = "utc" THEN Day(t) ELSE LDay(t, z)
MechSelected(lo, hi, s, e, z) ==
    {S \in Shapes : /\ InWin(S, s, e) # {}
                    /\ \E d \in RowDays(S) : Bound(lo, s, z) <= d /\ d <= Bound(hi, e, z)}

VARIABLES zone, ws, we
vars == <<zone, ws, we>>
Init == /\ zone \in ZoneOffs
        /\ \E w \in Windows : ws = w[1] /\ we = w[2]
Next == UNCHANGED vars
Spec == Init /\ [][Next]_vars

TypeOK == zone \in ZoneOffs /\ ws \in Ticks /\ we \in Ticks /\ ws <= we
NoMiss == MechSelected("utc", "utc", ws, we, zone) = DefSelected(ws, we)
\* every series handed out has its samples of the window and nothing else: by construction of InWin; the
\* window samples of a selected shape are never empty
SelectedHaveSamples == \A S \in DefSelected(ws, we) : InWin(S, ws, we) \subseteq S /\ InWin(S, ws, we) # {}

Misses(lo, hi) == \E z \in ZoneOffs, w \in Windows : MechSelected(lo, hi, w[1], w[2], z) # DefSelected(w[1], w[2])
LocalRuleMisses == Misses("utc", "local") /\ Misses("local", "utc") /\ ~Misses("utc", "utc")
=============================================================================

----------------------------- MODULE PromDown -----------------------------
(* X08: the PromQL read path over the 15 s downsample table (metrics_15s).

   reader/service/promQueryable.go transpileLabelMatchers sends a select whose hints have Start % 15000 = 0,
   Step >= 15000 and Range = 0 or >= 15000 and a supported function to TranspileLabelMatchersDownsample
   (reader/promql/transpiler/transpilerDownsample.go, hints_downsample_planner.go, init_downsample_clickhouse_planner.go).

   Time is abstract: a TICK is 3*b + p for the 15 s bucket b and the position p in it (0 = the first millisecond,
   1 = somewhere inside, 2 = the last millisecond).  Evaluation times, select bounds and bucket starts are all ticks
   3*b; "one millisecond before bucket b" is exactly tick 3*b - 1.  The mapping tick -> millisecond is monotone, so every
   comparison the code makes between a timestamp and a bucket-aligned bound is the same comparison on ticks.

   Def(D, rq)      the PromQL answer on the raw samples (vendored engine v2.37-dev: range window [t - range, t] closed,
                   instant selector = newest sample in [t - lookback, t] closed)
   Mech(D, rq, Q)  the mechanism: materialized view (15 s grain) -> SQL time filter -> re-bucketing / re-timing / state merge
                   per function -> (count_over_time: MapResult expansion) -> the engine's window over the re-timed points.
                   Q = the set of named quirks that are switched on; Mech(.., {}) = Def; the code is Mech(.., AllQuirks). *)
EXTENDS Integers, Sequences, FiniteSets

CONSTANTS LB        \* the engine's lookback delta in buckets (5 min = 20)

AllQuirks == {"bucket_grain", "from_exclusive", "step_merge", "retimed_before_bucket", "narrow_window"}
(* bucket_grain    metrics_15s_mv keeps one row per (fingerprint, 15 s bucket) stamped with the START of the bucket: the samples
                   of a bucket cross a window edge together, and the engine applies the function to per-bucket aggregates
                   (avg of avgs)
   from_exclusive  init_downsample_clickhouse_planner.go: samples.timestamp_ns > From (From = hints.Start = the closed lower
                   edge of the first window)
   hints_downsample_planner.go, branch "step <= range, or not a range function":
   step_merge      the rows of an epoch-aligned step bucket g = intDiv(ts, step) are merged into one point; taken alone the
                   point is stamped with the last millisecond of the step bucket, (g+1)*step - 1 ms
   retimed_before_bucket  (only with step_merge) the point is stamped g*step - 1 ms: the instant BEFORE the data of the bucket
   hints_downsample_planner.go, branch "range function and step > range":
   narrow_window   only rows with ts % step = 0 or ts % step > step - range survive; they are merged per
                   g = intDiv(ts + range, step) and stamped g*step - 1 ms *)

RangeFns == {"sum_over_time", "count_over_time", "avg_over_time", "min_over_time", "max_over_time", "last_over_time", "present_over_time"}
\* functions over an instant selector: "" = the bare selector, "sum" = the aggregation sum(selector) over all series
InstFns  == {"", "sum"}

Tick(x) == 3 * x.b + x.p

RECURSIVE SumF(_, _)
SumF(f, S) == IF S = {} THEN 0 ELSE LET x == CHOOSE y \in S : TRUE IN f[x] + SumF(f, S \ {x})
RECURSIVE ProdF(_, _)
ProdF(f, S) == IF S = {} THEN 1 ELSE LET x == CHOOSE y \in S : TRUE IN f[x] * ProdF(f, S \ {x})
MinOf(S) == CHOOSE m \in S : \A y \in S : m <= y
MaxOf(S) == CHOOSE m \in S : \A y \in S : m >= y
RECURSIVE Gcd(_, _)
Gcd(a, b) == IF b = 0 THEN a ELSE Gcd(b, a % b)
Norm(n, d) == LET g == Gcd(n, d) IN [n |-> n \div g, d |-> d \div g]

\* the evaluation grid of a range query: bucket numbers st, st + S, .. <= en
Evals(rq)   == 0 .. ((rq.en - rq.st) \div rq.S)
EvalAt(rq, k) == rq.st + k * rq.S
\* width of the engine's window in buckets
Win(rq) == IF rq.fn \in InstFns THEN LB ELSE rq.R

\* sum(..) over the series that have a point at an evaluation time (integer values only); the answer is series 0
AggSum(P) == {LET Pk == {p \in P : p.k = k} IN [s |-> 0, k |-> k, n |-> SumF([p \in Pk |-> p.n], Pk), d |-> 1] : k \in {p.k : p \in P}}

(***************************** the definition *****************************)
DefVal(fn, W) ==
    CASE fn = "sum_over_time"   -> Norm(SumF([x \in W |-> x.v], W), 1)
      [] fn = "count_over_time" -> Norm(Cardinality(W), 1)
      [] fn = "avg_over_time"   -> Norm(SumF([x \in W |-> x.v], W), Cardinality(W))
      [] fn = "min_over_time"   -> Norm(MinOf({x.v : x \in W}), 1)
      [] fn = "max_over_time"   -> Norm(MaxOf({x.v : x \in W}), 1)
      [] fn = "present_over_time" -> Norm(1, 1)
      [] OTHER                  -> Norm((CHOOSE x \in W : \A y \in W : Tick(y) <= Tick(x)).v, 1)   \* "" and last_over_time
DefW(D, rq, s, k) == {x \in D : x.s = s /\ Tick(x) >= 3 * (EvalAt(rq, k) - Win(rq)) /\ Tick(x) <= 3 * EvalAt(rq, k)}
DefSel(D, rq) ==
    LET pts == {p \in {x.s : x \in D} \X Evals(rq) : DefW(D, rq, p[1], p[2]) # {}}
    IN  {LET v == DefVal(rq.fn, DefW(D, rq, p[1], p[2])) IN [s |-> p[1], k |-> p[2], n |-> v.n, d |-> v.d] : p \in pts}

Def(D, rq) == IF rq.fn = "sum" THEN AggSum(DefSel(D, rq)) ELSE DefSel(D, rq)

(****************************** the mechanism ******************************)
\* a row: aggregate states of a set of samples of one series; lt = the argMax key of `last`
SampleRow(x) == [s |-> x.s, ts |-> Tick(x), mn |-> x.v, mx |-> x.v, sm |-> x.v, cn |-> 1, la |-> x.v, lt |-> Tick(x)]
MergeRows(RS, s, ts) ==
    [s |-> s, ts |-> ts, mn |-> MinOf({r.mn : r \in RS}), mx |-> MaxOf({r.mx : r \in RS}),
     sm |-> SumF([r \in RS |-> r.sm], RS), cn |-> SumF([r \in RS |-> r.cn], RS),
     la |-> (CHOOSE r \in RS : \A q \in RS : q.lt <= r.lt).la, lt |-> MaxOf({r.lt : r \in RS})]
\* metrics_15s_mv: GROUP BY fingerprint, intDiv(timestamp_ns, 15 s) * 15 s
MV(D, Q) ==
    IF "bucket_grain" \in Q
    THEN {MergeRows({SampleRow(x) : x \in {y \in D : y.s = key[1] /\ y.b = key[2]}}, key[1], 3 * key[2]) : key \in {<<x.s, x.b>> : x \in D}}
    ELSE {SampleRow(x) : x \in D}
\* InitDownsamplePlanner: samples.timestamp_ns > From AND samples.timestamp_ns <= To, From / To = hints.Start / hints.End
Lo(rq) == 3 * (rq.st - Win(rq))
Hi(rq) == 3 * rq.en
Filter(RS, rq, Q) == {r \in RS : (IF "from_exclusive" \in Q THEN r.ts > Lo(rq) ELSE r.ts >= Lo(rq)) /\ r.ts <= Hi(rq)}
\* DownsampleHintsPlanner
Regroup(RS, rq, Q) ==
    LET st3    == 3 * rq.S
        narrow == rq.fn \in RangeFns /\ rq.S > rq.R
        on     == IF narrow THEN "narrow_window" \in Q ELSE "step_merge" \in Q
        kept   == IF narrow THEN {r \in RS : r.ts % st3 = 0 \/ r.ts % st3 > st3 - 3 * rq.R} ELSE RS
        lab(r) == IF narrow THEN ((r.ts + 3 * rq.R) \div st3) * st3 - 1
                  ELSE IF "retimed_before_bucket" \in Q THEN (r.ts \div st3) * st3 - 1
                  ELSE (r.ts \div st3 + 1) * st3 - 1
    IN  IF ~on THEN RS
        ELSE {MergeRows({r \in kept : r.s = key[1] /\ lab(r) = key[2]}, key[1], key[2]) : key \in {<<r.s, lab(r)>> : r \in kept}}
\* the value column per function (getValueMerge) followed by the engine's function over the points of the window;
\* count_over_time: a point of value n is expanded into n points of value 1 (TranspileLabelMatchersDownsample MapResult)
EngVal(fn, W) ==
    CASE fn = "sum_over_time"   -> Norm(SumF([r \in W |-> r.sm], W), 1)
      [] fn = "count_over_time" -> Norm(SumF([r \in W |-> r.cn], W), 1)
      [] fn = "avg_over_time"   -> LET den == ProdF([r \in W |-> r.cn], W)
                                   IN  Norm(SumF([r \in W |-> r.sm * (den \div r.cn)], W), den * Cardinality(W))
      [] fn = "min_over_time"   -> Norm(MinOf({r.mn : r \in W}), 1)
      [] fn = "max_over_time"   -> Norm(MaxOf({r.mx : r \in W}), 1)
      [] fn = "present_over_time" -> Norm(1, 1)     \* the value column is the constant 1
      [] OTHER                  -> Norm((CHOOSE r \in W : \A q \in W : q.ts <= r.ts).la, 1)
EngW(RS, rq, s, k) == {r \in RS : r.s = s /\ r.ts >= 3 * (EvalAt(rq, k) - Win(rq)) /\ r.ts <= 3 * EvalAt(rq, k)}
EngSel(RS, rq) ==
    LET pts == {p \in {r.s : r \in RS} \X Evals(rq) : EngW(RS, rq, p[1], p[2]) # {}}
    IN  {LET v == EngVal(rq.fn, EngW(RS, rq, p[1], p[2])) IN [s |-> p[1], k |-> p[2], n |-> v.n, d |-> v.d] : p \in pts}
Engine(RS, rq) == IF rq.fn = "sum" THEN AggSum(EngSel(RS, rq)) ELSE EngSel(RS, rq)
Mech(D, rq, Q) == Engine(Regroup(Filter(MV(D, Q), rq, Q), rq, Q), rq)
=============================================================================

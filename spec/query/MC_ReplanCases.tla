---------------------------- MODULE MC_ReplanCases ----------------------------
(* Enumerates every case (query class x execution number) of Replan with the EXPECTED outcome for the real   *)
(* planners: does execution k of one plan object mean something else than a fresh plan (Diverges), which     *)
(* modelled fields does execution k write.  One state per case; printed as JSON for the driver.              *)
EXTENDS Replan, Json

VARIABLE c
CaseSet == {[q |-> q, k |-> k] : q \in Queries, k \in 1..MaxExec}
CInit == Init /\ c \in CaseSet
CNext == UNCHANGED <<plans, last, c>>
CSpec == CInit /\ [][CNext]_<<plans, last, c>>

CaseRec == [q |-> c.q, k |-> c.k,
            diverges |-> Diverges(c.q, c.k),
            writes |-> WrittenBy(FieldsAfter(c.q, c.k - 1), FieldsAfter(c.q, c.k))]
Export == PrintT(<<"CASE", ToJson(CaseRec)>>)
=============================================================================

--------------------------- MODULE MC_JsonStream ---------------------------
(* Model-checking and case-export wrapper for JsonStream.  Every terminal state (pc = done / aborted) is a *)
(* CASE: the input (batch sequence), the spec's token string, the spec's verdicts and the expected        *)
(* grouping are printed as one line  C15|writer|input|pc|benign|hazard|wf|conform|tokens|groups            *)
(* which tools/props/c15.py collects and harness/cmd/c15 replays into the real writers.                    *)
EXTENDS JsonStream

(* Everything is printed with ToString of a TLA+ value (one string per part: cheap), decoded by c15.py.   *)
TokCode(t) == CASE t.t = "{" -> 1 [] t.t = "}" -> 2 [] t.t = "[" -> 3 [] t.t = "]" -> 4 [] t.t = "," -> 5
                [] t.t = "key" -> 6 [] t.t = "val" -> 7
Toks(toks) == [p \in 1..Len(toks) |-> TokCode(toks[p])]

(* an entry: row = fingerprint 0..2 (vector: 10 * ts + fingerprint), EOF marker = 8, error marker = 9 *)
EntryCode(e) == CASE e.kind = "eof" -> 8 [] e.kind = "err" -> 9
                  [] OTHER -> IF w = "vector" THEN 10 * e.ts + e.fp ELSE e.fp
Input == [b \in 1..Len(hist) |-> [p \in 1..Len(hist[b]) |-> EntryCode(hist[b][p])]]

Ids(rs) == [x \in 1..Len(rs) |-> rs[x].id]
Groups ==
    LET rs == Rows(hist) IN
    CASE w \in SeriesWriters -> LET runs == Runs(rs) IN [r \in 1..Len(runs) |-> <<runs[r][1].fp, Ids(runs[r])>>]
      [] w \in ListWriters \cup BatchListWriters -> Ids(rs)
      [] w = "vector"        -> LET S == {rs[p].fp : p \in 1..Len(rs)}
                                    sq == SelectSeq(<<0, 1, 2>>, LAMBDA fp : fp \in S) IN
                                [x \in 1..Len(sq) |-> <<sq[x], Best(rs, sq[x]).id>>]

Line(ben, hz, wf, cf) == "C15|" \o w \o "|" \o pc \o "|" \o ToString(<<Input, <<ben, hz, wf, cf>>, Toks(out), Groups>>)

(* one invariant that evaluates every verdict once per terminal state: OffHazard, HazardIsReal, DocIsWF,   *)
(* ListAlwaysWF of JsonStream, and prints the case                                                         *)
ExportAndCheck ==
    pc \in {"done", "aborted"} =>
        LET ben == Benign(hist)
            hz  == Hazard
            wf  == WF(out)
            cf  == Conform
        IN  /\ PrintT(Line(ben, hz, wf, cf))
            /\ (pc = "done" /\ ben /\ ~hz) => (wf /\ cf)
            /\ (pc = "done" /\ ben /\ hz) => ~cf
            /\ (pc = "done" /\ ben) => WF(Doc)
            /\ (pc = "done" /\ w \in ListWriters) => wf

=============================================================================

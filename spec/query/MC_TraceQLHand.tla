---- MODULE MC_TraceQLHand ----
(* Hand-run instance of MC_TraceQL (tools/props/c11.py generates the same module with the seeded RandCases):      *)
(*   tlc -workers 8 -config MC_TraceQLHand.cfg MC_TraceQLHand.tla                                                 *)
(* checks CheckCase (IdealConforms, DefSane, DateBoundImplied) on every case of the five exhaustive layers and    *)
(* prints the cases (C11CASE lines) with Eval, PlanEval of the code as written and the explaining deviation rules. *)
EXTENDS MC_TraceQL
cDay == <<0, 0, 1, 1, 1, 2>>
cLayers == {"term", "bool", "agg", "chain", "win", "portion"}
cMods == [term |-> 1, bool |-> 1, agg |-> 1, chain |-> 1, win |-> 1, portion |-> 1, rand |-> 1]
cFlags == {"distinct", "portion_from"}   \* = tools/props/c11.py CODE_DEVIATIONS (AllFlags = the planner of the pinned tree, before the repairs)
cRand == {}
====

SPECIFICATION Spec
CONSTANTS
  MaxLen = 4
  ExportLen = 3
  SampleMod = 60
  Seed = 1
INVARIANTS EscRoundTrip LikeStructure Export
CHECK_DEADLOCK FALSE

\* mutation: the exporter returns on an error message without draining its input (the code before the fix):
\* TLC must find a goroutine that never terminates (a holding stage blocked on a send nobody receives)
SPECIFICATION Spec
CONSTANTS
  Shapes <- MShapes
  MaxRows = 2
  FaultRows = {0, 1, 2}
  ExportDrainsOnError = FALSE
PROPERTIES EventuallyAllTerminated
CHECK_DEADLOCK FALSE

\* reference configuration (tools/props/c17.py generates the ones it runs): contract sanity on the whole space;
\* replace the INVARIANTS line by "INVARIANTS Conforms" to see the cursor diverge from the contract
SPECIFICATION Spec
CONSTANTS
  MaxTs = 6
  MaxLen = 4
  SeekMax = 7
  MaxCalls = 5
INVARIANTS TypeOK RefSane
PROPERTIES Monotone SeekLands
CHECK_DEADLOCK FALSE

------------------------------ MODULE ProfSeries ------------------------------
(***************************************************************************)
(* X05 -- the Pyroscope read API beyond flame graphs: what SelectSeries,   *)
(* SelectMergeProfile, ProfileTypes, LabelNames, LabelValues, Series,      *)
(* GetProfileStats and AnalyzeQuery must answer over a database of         *)
(* ingested profiles.                                                      *)
(*                                                                         *)
(* Two descriptions of every endpoint, over the same small abstract        *)
(* database (a sequence of 1..3 ingested profiles):                        *)
(*   Def*   the order-free DEFINITION of the answer, written on the        *)
(*          ingested profiles themselves (no tables, no hashes, no SQL);   *)
(*   Mech*  a transcription of the MECHANISM, one operator per code rule:  *)
(*     writer/utils/unmarshal/golangPprof.go  Parse / calculateSumAndCount *)
(*                         -> ValuesAgg (type:unit, sum, count)            *)
(*     /ingest?name=svc{k=v,..}&from=..       -> the profiles_input row    *)
(*     ctrl/qryn/sql/profiles.sql             -> ProfRows (profiles_mv),   *)
(*                         SeriesRows (profiles_series_mv), GinRows        *)
(*                         (profiles_series_gin_mv); the fingerprint       *)
(*                         cityHash64(arraySort(tags + __type__ +          *)
(*                         __sample_types_units__ + service_name)) is the  *)
(*                         record Fp (an injective hash)                   *)
(*     reader/prof/transpiler/planner_selector.go  -> FpSel, TypeMatch     *)
(*       (populateTypeId: one __profile_type__ matcher; quirk type_cross:  *)
(*       the type id as five independent matchers, as it was)              *)
(*     planner_get_labels.go + planner_select_series.go + profService.go   *)
(*       SelectSeries (fold of the rows ordered by fingerprint, time)      *)
(*                                             -> MechSelectSeries         *)
(*     planner_merge_profiles.go + profMerge_v2.go -> MechMergeProfile     *)
(*     profService.ProfileTypes                 -> MechProfileTypes        *)
(*     planner_label_generic.go / _names / _values -> MechLabelNames/Values*)
(*     planner_select_(all_)time_series.go + planner_filter_labels.go +    *)
(*       planner_union_all.go + profService.TimeSeries -> MechSeries       *)
(*     planner_profiles_size.go                 -> MechAnalyze             *)
(*     profService.ProfileStats                 -> MechStats               *)
(*                                                                         *)
(* The mechanism is parameterised by a set Q of QUIRKS: named places where *)
(* the code as it is written departs from the definition.  Mech(.., {}) is *)
(* the mechanism with every quirk repaired and TLC proves it equal to the  *)
(* definition on every small database and request (MechEqDef);             *)
(* Mech(.., AsCoded) is the code as it is (AsCoded = AllQuirks minus the   *)
(* quirks that have been repaired in the code: MC_ProfSeries!Repaired, set *)
(* by tools/props/x05.py; a repaired quirk stays here as a mutation of the *)
(* mechanism), and TLC proves that whenever a mechanism with quirks        *)
(* differs from the definition at least one single quirk accounts for it   *)
(* (QuirksExplain).  The binding (harness/cmd/x05) runs the REAL /ingest   *)
(* and querier routes on every exported case: an answer equal to the       *)
(* definition passes; an answer equal to the as-coded prediction is a      *)
(* violation attributed to the fired quirks; anything else is an           *)
(* unexplained violation.                                                  *)
(*                                                                         *)
(* TIME.  Abstract time is a line of ticks; Step ticks make one step       *)
(* bucket.  With Step = 4 the four ticks of bucket k stand for the         *)
(* instants  k*step, k*step + m, k*step + m + 1ns, (k+1)*step - 1ns        *)
(* (m a whole number of milliseconds): every bucket has both of its edges  *)
(* and two interior instants one nanosecond apart, so a window bound (a    *)
(* whole number of milliseconds: ticks 0 and 1 of a bucket) has a          *)
(* timestamp exactly on it and one just beyond it on either side.          *)
(*                                                                         *)
(* WHAT A STEP BUCKET IS (as the code has it, planner_select_series.go):   *)
(*   timestamp_ms = intDiv(timestamp_ns, 1e9 * step) * step * 1000         *)
(* bucket k holds the profiles with  k*step <= timestamp < (k+1)*step      *)
(* (seconds since the epoch: start INCLUSIVE, end EXCLUSIVE), it is        *)
(* aligned to the epoch and not to the request's start, and it is labelled *)
(* with its START in milliseconds.  The request window cuts profiles, not  *)
(* buckets: start <= timestamp <= end, both inclusive, so the first point  *)
(* may carry a timestamp up to step-1 s BEFORE start.  (Pyroscope labels a *)
(* point with the END of a bucket (T-step, T] on the grid start + k*step;  *)
(* the definition below follows the code, the difference is documented in  *)
(* the check's assumptions, it is not a verdict.)                          *)
(*                                                                         *)
(* Not here: date bounds of the series tables and windows in general are   *)
(* C13's (all profiles of a case live in one UTC day, every date condition *)
(* is true), label matcher semantics are C17's (the only selectors are {}  *)
(* and one equality), call trees are C16's.                                *)
(***************************************************************************)
EXTENDS Integers, Sequences, FiniteSets, TLC

CONSTANTS
    SvcSeq,      \* sequence of service names
    TagPool,     \* sequence of tag sequences (<<name, value>> pairs in ingest order, names distinct in one sequence;
                 \*   no two entries are permutations of each other)
    TLPool,      \* sequence of sample type lists (sequences of <<type, unit>> pairs, pairs distinct in one list)
    PerPool,     \* sequence of period types <<name, period type, period unit>> (name = what the writer derives)
    BagPool,     \* sequence of sample bags: sequences of [stack |-> Seq(fn), unit |-> BOOLEAN]; sample k has weight k
    MaxT,        \* last tick
    Step,        \* ticks per step bucket
    MaxProfiles

AllQuirks == {"avg_sql",            \* SelectSeries AVERAGE: arrayFirst(x -> x.1 == <condition>) without an array: SQL error
              "avg_per_sample",     \* SelectSeries AVERAGE: sum / sum(values_agg.3), and .3 is the number of SAMPLES of a profile
                                    \*   (calculateSumAndCount), so the mean is over samples, not over the profiles of the bucket
              "type_cross",         \* the type id is matched component by component: sample type and unit need not be a pair
              "dup_series",         \* SelectSeries without group_by: one series per FINGERPRINT (type list included), not per label set
              "groupby_order",      \* SelectSeries group_by: cityHash64 of the filtered tags in STORED order (no arraySort)
              "dup_labelsets",      \* Series with label_names: no DISTINCT after the labels are filtered
              "names_ignored",      \* Series without matchers: label_names is ignored (AllTimeSeriesSelectPlanner returns early)
              "second_matcher_lost",\* Series with several matchers: one "WITH fp" survives, every branch reads the first matcher's fingerprints
              "merge_lineless",     \* SelectMergeProfile: hashLines takes &x[0] of an empty slice (location without line info)
              "merge_emptystack",   \* SelectMergeProfile: hashLocations takes &locations[0] of an empty slice
              "merge_incompatible", \* SelectMergeProfile merges whole payloads: different sample type lists are refused
              "stale_unit"}         \* SelectMergeProfile: Label.NumUnit keeps the string index of the profile it came from

(********************************* helpers *********************************)
Range(s) == {s[i] : i \in DOMAIN s}
RECURSIVE SumF(_)
SumF(f) == IF DOMAIN f = {} THEN 0
           ELSE LET x == CHOOSE x \in DOMAIN f : TRUE
                IN  f[x] + SumF([y \in DOMAIN f \ {x} |-> f[y]])
Min(S) == CHOOSE x \in S : \A y \in S : x <= y
Max(S) == CHOOSE x \in S : \A y \in S : x >= y
Pow10 == <<1, 10, 100, 1000, 10000, 100000, 1000000>>
RECURSIVE FilterSeq(_, _)
FilterSeq(s, N) == IF s = <<>> THEN <<>>
                   ELSE (IF Head(s)[1] \in N THEN <<Head(s)>> ELSE <<>>) \o FilterSeq(Tail(s), N)

(************************* the abstract database ***************************)
\* a profile is a record of pool indices and a tick: [svc, tags, tl, per, bag, t]
Svc(p)  == SvcSeq[p.svc]
Tags(p) == TagPool[p.tags]
TL(p)   == TLPool[p.tl]
Per(p)  == PerPool[p.per]
Bag(p)  == BagPool[p.bag]
Profiles == [svc : DOMAIN SvcSeq, tags : DOMAIN TagPool, tl : DOMAIN TLPool, per : DOMAIN PerPool,
             bag : DOMAIN BagPool, t : 0..MaxT]

\* sample k of the i-th profile of the database weighs k; its value for the j-th sample type is k * 10^(2(i-1)+(j-1)):
\* every (profile, sample type) owns a decimal digit, any sum decodes into the profiles and columns that were added
Val(i, j, k)   == k * Pow10[2 * (i - 1) + (j - 1) + 1]
NSamples(db, i) == Len(Bag(db[i]))                                               \* calculateSumAndCount: count
Total(db, i, j) == SumF([k \in 1..NSamples(db, i) |-> Val(i, j, k)])             \* calculateSumAndCount: sum
ColOf(tl, pair) == IF \E j \in DOMAIN tl : tl[j] = pair THEN Min({j \in DOMAIN tl : tl[j] = pair}) ELSE 0
\* arrayFirst(x -> x.1 = 'type:unit', values_agg).2 -- the default tuple ('', 0, 0) when there is none
AggSum(db, i, pair) == LET j == ColOf(TL(db[i]), pair) IN IF j = 0 THEN 0 ELSE Total(db, i, j)

SvcPair(p)    == <<"service_name", Svc(p)>>
FullLabels(p) == Range(Tags(p)) \cup {SvcPair(p)}                                \* the label set of the profile's series
Idx(db) == 1..Len(db)

(************************** the tables (materialized views) ****************)
\* cityHash64(arraySort(tags ++ [__type__, __sample_types_units__ (sorted, joined), service_name])): injective => the record
Fp(p) == [l |-> FullLabels(p), ty |-> Per(p), stu |-> Range(TL(p))]
StoredTags(p) == Tags(p) \o <<SvcPair(p)>>                                       \* profiles_series_mv: arrayConcat(tags, [service_name])
ProfRows(db)   == {[i |-> i, ts |-> db[i].t, fp |-> Fp(db[i]), ty |-> Per(db[i]), stu |-> TL(db[i]), svc |-> Svc(db[i])] : i \in Idx(db)}
SeriesRows(db) == {[fp |-> Fp(db[i]), ty |-> Per(db[i]), stu |-> TL(db[i]), svc |-> Svc(db[i]), tags |-> StoredTags(db[i])] : i \in Idx(db)}
GinRows(db)    == UNION {{[key |-> r.tags[k][1], val |-> r.tags[k][2], fp |-> r.fp, svc |-> r.svc] : k \in DOMAIN r.tags} : r \in SeriesRows(db)}

(***************************** selectors, type ids *************************)
\* a selector is <<>> ({} or no matcher at all) or <<name, value>> (one equality matcher)
FpSel(db, sel) ==                                                                \* StreamSelectorPlanner: the fp sub-query on the gin table
    IF sel = <<>> THEN {g.fp : g \in GinRows(db)}
    ELSE IF sel[1] = "service_name" THEN {g.fp : g \in {x \in GinRows(db) : x.svc = sel[2]}}   \* a "global" matcher on the column
    ELSE {g.fp : g \in {x \in GinRows(db) : x.key = sel[1] /\ x.val = sel[2]}}
DefMatches(p, sel) == sel = <<>> \/ <<sel[1], sel[2]>> \in FullLabels(p)

\* a type id is [name, st, su, pt, pu];  populateTypeId + getMatchers: __name__, __period_type__, __period_unit__ on the
\* split type_id, __sample_type__ and __sample_unit__ EACH by its own arrayExists over sample_types_units
TypeMatch(ty, stu, T, Q) ==
    /\ ty = <<T.name, T.pt, T.pu>>
    /\ IF "type_cross" \in Q
       THEN (\E k \in DOMAIN stu : stu[k][1] = T.st) /\ (\E k \in DOMAIN stu : stu[k][2] = T.su)
       ELSE \E k \in DOMAIN stu : stu[k] = <<T.st, T.su>>
DefHasType(p, T) == Per(p) = <<T.name, T.pt, T.pu>> /\ <<T.st, T.su>> \in Range(TL(p))

(******************************* SelectSeries ******************************)
\* request: [T, sel, gb (sequence of label names), agg ("sum" | "avg"), s, e (ticks)]
\* answer : [err (set of error kinds), series (set of [s |-> [labels, points], n |-> multiplicity])]
\*          a point is [t |-> tick that labels the bucket, num, den]: value num / den
Bucket(t) == t \div Step                                   \* intDiv(timestamp_ns, 1e9 * step)
BLabel(b) == b * Step                                      \*   * step * 1000: the bucket's START
BagOf(S, F(_)) == {[s |-> x, n |-> Cardinality({k \in S : F(k) = x})] : x \in {F(k) : k \in S}}

MechSelectSeries(db, rq, Q) ==
    IF rq.agg = "avg" /\ "avg_sql" \in Q THEN [err |-> {"sql"}, series |-> {}]
    ELSE
    LET fps  == FpSel(db, rq.sel)                                                   \* WITH fp AS (..)  -- the selector WITHOUT the type
        lab  == {r \in SeriesRows(db) : r.fp \in fps /\ TypeMatch(r.ty, r.stu, rq.T, Q)}    \* WITH labels AS (..)
        rows == {p \in ProfRows(db) : /\ p.fp \in fps /\ rq.s <= p.ts /\ p.ts <= rq.e
                                      /\ TypeMatch(p.ty, p.stu, rq.T, Q)}
        J(p) == CHOOSE r \in lab : r.fp = p.fp                                     \* ANY LEFT JOIN labels ON fingerprint
        gbn  == Range(rq.gb)
        NewFp(r) == IF rq.gb = <<>>                                                \* new_fingerprint
                    THEN (IF "dup_series" \in Q THEN [k |-> "fp", fp |-> r.fp, seq |-> <<>>, set |-> {}]
                                                ELSE [k |-> "set", fp |-> 0, seq |-> <<>>, set |-> Range(r.tags)])
                    ELSE (IF "groupby_order" \in Q THEN [k |-> "seq", fp |-> 0, seq |-> FilterSeq(r.tags, gbn), set |-> {}]
                                                   ELSE [k |-> "set", fp |-> 0, seq |-> <<>>, set |-> Range(FilterSeq(r.tags, gbn))])
        LabelsOf(r) == IF rq.gb = <<>> THEN Range(r.tags) ELSE Range(FilterSeq(r.tags, gbn))   \* arraySort(tags) | arrayFilter(..)
        G(p)  == NewFp(J(p))
        keys  == {G(p) : p \in rows}
        Ser(k) == LET ps == {p \in rows : G(p) = k}                                \* GROUP BY timestamp_ms, fingerprint + the Go fold
                  IN  [labels |-> LabelsOf(J(CHOOSE p \in ps : TRUE)),
                       points |-> {[t   |-> BLabel(b),
                                    num |-> SumF([p \in {x \in ps : Bucket(x.ts) = b} |-> AggSum(db, p.i, <<rq.T.st, rq.T.su>>)]),
                                    den |-> IF rq.agg # "avg" THEN 1
                                            ELSE IF "avg_per_sample" \in Q
                                            THEN SumF([p \in {x \in ps : Bucket(x.ts) = b} |-> NSamples(db, p.i)])   \* sum(values_agg.3)
                                            ELSE Cardinality({x \in ps : Bucket(x.ts) = b})]
                                   : b \in {Bucket(p.ts) : p \in ps}}]
    IN  [err |-> {}, series |-> BagOf(keys, Ser)]

DefSel(db, rq) == {i \in Idx(db) : /\ DefMatches(db[i], rq.sel) /\ DefHasType(db[i], rq.T)
                                   /\ rq.s <= db[i].t /\ db[i].t <= rq.e}
DefKey(p, gb) == IF gb = <<>> THEN FullLabels(p) ELSE {kv \in FullLabels(p) : kv[1] \in Range(gb)}
DefSelectSeries(db, rq) ==
    LET sel == DefSel(db, rq)
        Ser(k) == LET ps == {i \in sel : DefKey(db[i], rq.gb) = k}
                  IN  [labels |-> k,
                       points |-> {[t   |-> BLabel(b),
                                    num |-> SumF([i \in {x \in ps : Bucket(db[x].t) = b} |-> Total(db, i, ColOf(TL(db[i]), <<rq.T.st, rq.T.su>>))]),
                                    den |-> IF rq.agg = "avg" THEN Cardinality({x \in ps : Bucket(db[x].t) = b}) ELSE 1]
                                   : b \in {Bucket(db[i].t) : i \in ps}}]
    IN  [err |-> {}, series |-> {[s |-> Ser(k), n |-> 1] : k \in {DefKey(db[i], rq.gb) : i \in sel}}]

(***************************** SelectMergeProfile **************************)
\* request: [T, sel, s, e];  answer: [err, cols (sequence of <<type, unit>>), samples (set of [stack, unit, vals]), units]
\*   samples are keyed by (stack of function names, carries a numeric label with a unit); vals is a sequence over cols;
\*   units = "ok": every unit label reads as it was ingested | "any": unspecified (stale string index)
HasLineless(b)   == \E k \in DOMAIN b : "nl" \in Range(b[k].stack)
HasEmptyStack(b) == \E k \in DOMAIN b : b[k].stack = <<>>
HasUnit(b)       == \E k \in DOMAIN b : b[k].unit
SKeys(db, C)  == UNION {{[stack |-> Bag(db[i])[k].stack, unit |-> Bag(db[i])[k].unit] : k \in DOMAIN Bag(db[i])} : i \in C}
\* the value of sample key x in column pair, summed over the profiles C
SVal(db, C, x, pair) ==
    SumF([i \in C |-> LET j == ColOf(TL(db[i]), pair)
                          b == Bag(db[i])
                      IN  IF j = 0 THEN 0
                          ELSE SumF([k \in {m \in DOMAIN b : b[m].stack = x.stack /\ b[m].unit = x.unit} |-> Val(i, j, k)])])
MergeAnswer(db, C, cols, units) ==
    [err |-> {}, cols |-> cols, units |-> units,
     samples |-> {[stack |-> x.stack, unit |-> x.unit, vals |-> [c \in DOMAIN cols |-> SVal(db, C, x, cols[c])]] : x \in SKeys(db, C)}]

MechMergeProfile(db, rq, Q) ==
    LET fps  == FpSel(db, rq.sel)
        rows == {p \in ProfRows(db) : /\ rq.s <= p.ts /\ p.ts <= rq.e /\ p.fp \in fps
                                      /\ TypeMatch(p.ty, p.stu, rq.T, Q)}          \* SELECT payload FROM profiles WHERE ..
        C    == {p.i : p \in {x \in rows : NSamples(db, x.i) > 0}}                  \* Merge: len(p.Sample) == 0 => skipped
        lists == {TL(db[i]) : i \in C}
        errs == (IF "merge_lineless" \in Q /\ \E i \in C : HasLineless(Bag(db[i])) THEN {"panic_lineless"} ELSE {})
                \cup (IF "merge_emptystack" \in Q /\ \E i \in C : HasEmptyStack(Bag(db[i])) THEN {"panic_emptystack"} ELSE {})
                \cup (IF "merge_incompatible" \in Q /\ Cardinality(lists) > 1 THEN {"incompatible"} ELSE {})   \* combineHeaders
        cols == IF C = {} THEN <<>>
                ELSE IF Cardinality(lists) = 1 THEN CHOOSE l \in lists : TRUE       \* the whole payloads are merged: every column
                ELSE <<<<rq.T.st, rq.T.su>>>>
        units == IF "stale_unit" \in Q /\ Cardinality(C) > 1 /\ \E i \in C : HasUnit(Bag(db[i])) THEN "any" ELSE "ok"
    IN  IF errs # {} THEN [err |-> errs, cols |-> <<>>, units |-> "ok", samples |-> {}]
        ELSE MergeAnswer(db, C, cols, units)

DefMergeProfile(db, rq) ==
    LET C == {i \in DefSel(db, rq) : NSamples(db, i) > 0}
        lists == {TL(db[i]) : i \in C}
        cols == IF C = {} THEN <<>>
                ELSE IF Cardinality(lists) = 1 THEN CHOOSE l \in lists : TRUE
                ELSE <<<<rq.T.st, rq.T.su>>>>
    IN  MergeAnswer(db, C, cols, "ok")

(******************************* ProfileTypes ******************************)
\* SELECT DISTINCT type_id, sample_type_unit FROM profiles_series ARRAY JOIN sample_types_units (date bounds: the day)
TypeRec(per, pair) == [name |-> per[1], st |-> pair[1], su |-> pair[2], pt |-> per[2], pu |-> per[3]]
MechProfileTypes(db) == UNION {{TypeRec(r.ty, r.stu[k]) : k \in DOMAIN r.stu} : r \in SeriesRows(db)}
DefProfileTypes(db)  == UNION {{TypeRec(Per(db[i]), x) : x \in Range(TL(db[i]))} : i \in Idx(db)}

(************************ LabelNames, LabelValues, Series ******************)
\* these three take a LIST of matchers (0..2 here): the answer is about the series that match ANY of them
FpSelAny(db, sels)     == IF sels = <<>> THEN {g.fp : g \in GinRows(db)}          \* no fp sub-query at all
                          ELSE UNION {FpSel(db, sels[i]) : i \in DOMAIN sels}     \* UnionAllPlanner over the stream selectors
DefMatchesAny(p, sels) == sels = <<>> \/ \E i \in DOMAIN sels : DefMatches(p, sels[i])
MechLabelNames(db, sels)     == {g.key : g \in {x \in GinRows(db) : x.fp \in FpSelAny(db, sels)}}
DefLabelNames(db, sels)      == UNION {{kv[1] : kv \in FullLabels(db[i])} : i \in {x \in Idx(db) : DefMatchesAny(db[x], sels)}}
MechLabelValues(db, n, sels) == {g.val : g \in {x \in GinRows(db) : x.fp \in FpSelAny(db, sels) /\ x.key = n}}
DefLabelValues(db, n, sels)  == UNION {{kv[2] : kv \in {x \in FullLabels(db[i]) : x[1] = n}} : i \in {x \in Idx(db) : DefMatchesAny(db[x], sels)}}

\* profService.TimeSeries: the pseudo labels of a (type_id, sample type) come first, then the stored tags
Pseudo(per, pair) == {<<"__name__", per[1]>>, <<"__period_type__", per[2]>>, <<"__period_unit__", per[3]>>,
                      <<"__sample_type__", pair[1]>>, <<"__sample_unit__", pair[2]>>,
                      <<"__profile_type__", per[1] \o ":" \o pair[1] \o ":" \o pair[2] \o ":" \o per[2] \o ":" \o per[3]>>}
\* request: [sels (the matchers), ln (sequence of label names, <<>> = all)];  answer: set of [s |-> label set, n |-> multiplicity]
\* PlanSeries: no selector in any matcher => AllTimeSeriesSelectPlanner; one matcher => TimeSeriesSelectPlanner over its
\* stream selector; several => ONE TimeSeriesSelectPlanner over the UNION ALL of the stream selectors; FilterLabelsPlanner
\* (DISTINCT) around any of them when label_names is given.
\* The quirks, as the code was: names_ignored -- AllTimeSeriesSelectPlanner was returned before the filter was applied;
\* dup_labelsets -- the filter had no DISTINCT; second_matcher_lost -- one TimeSeriesSelectPlanner per matcher, each with
\* its own "WITH fp AS (..)": the statement keeps ONE definition per WITH alias, the first, so every branch of the UNION ALL
\* read the fingerprints of the FIRST matcher (its own "global" conditions -- service_name -- stayed in its WHERE)
MechSeries(db, rq, Q) ==
    LET nsel   == Cardinality({i \in DOMAIN rq.sels : rq.sels[i] # <<>>})
        Glob(r, sel) == IF sel # <<>> /\ sel[1] = "service_name" THEN r.svc = sel[2] ELSE TRUE
        Branch(i) == LET fps == IF "second_matcher_lost" \in Q THEN FpSel(db, rq.sels[1]) ELSE FpSel(db, rq.sels[i])
                     IN  {r \in SeriesRows(db) : r.fp \in fps /\ Glob(r, rq.sels[i])}
        srows  == IF nsel = 0 THEN SeriesRows(db) ELSE UNION {Branch(i) : i \in DOMAIN rq.sels}
        rows   == UNION {{[tags |-> r.tags, ty |-> r.ty, stu |-> r.stu[k]] : k \in DOMAIN r.stu} : r \in srows}   \* DISTINCT tags, type_id, ARRAY JOIN sample_types_units
        filt   == rq.ln # <<>> /\ (nsel > 0 \/ "names_ignored" \notin Q)                \* selectorsCount == 0 => no FilterLabelsPlanner
        LS(x)  == Pseudo(x.ty, x.stu) \cup (IF filt THEN Range(FilterSeq(x.tags, Range(rq.ln))) ELSE Range(x.tags))
    IN  IF "dup_labelsets" \in Q THEN BagOf(rows, LS) ELSE {[s |-> LS(x), n |-> 1] : x \in rows}
DefSeries(db, rq) ==
    LET ms == {i \in Idx(db) : DefMatchesAny(db[i], rq.sels)}
        LS(i, x) == Pseudo(Per(db[i]), x) \cup (IF rq.ln # <<>> THEN {kv \in FullLabels(db[i]) : kv[1] \in Range(rq.ln)} ELSE FullLabels(db[i]))
    IN  {[s |-> ls, n |-> 1] : ls \in UNION {{LS(i, x) : x \in Range(TL(db[i]))} : i \in ms}}

(************************* AnalyzeQuery, GetProfileStats *******************)
\* request: [sel, s, e];  answer: [profiles (the payloads whose lengths are summed), series (uniqExact(fingerprint) of fp)]
MechAnalyze(db, rq) ==
    [profiles |-> {p.i : p \in {x \in ProfRows(db) : rq.s <= x.ts /\ x.ts <= rq.e /\ x.fp \in FpSel(db, rq.sel)}},
     series   |-> Cardinality(FpSel(db, rq.sel))]
DefAnalyze(db, rq) ==
    [profiles |-> {i \in Idx(db) : DefMatches(db[i], rq.sel) /\ rq.s <= db[i].t /\ db[i].t <= rq.e},
     series   |-> Cardinality({Fp(db[i]) : i \in {x \in Idx(db) : DefMatches(db[x], rq.sel)}})]    \* series of the day (C13: date grain)
MechStats(db) == IF ProfRows(db) = {} THEN [ingested |-> FALSE, oldest |-> -1, newest |-> -1]
                 ELSE [ingested |-> TRUE, oldest |-> Min({p.ts : p \in ProfRows(db)}), newest |-> Max({p.ts : p \in ProfRows(db)})]
DefStats(db)  == IF db = <<>> THEN [ingested |-> FALSE, oldest |-> -1, newest |-> -1]
                 ELSE [ingested |-> TRUE, oldest |-> Min({db[i].t : i \in Idx(db)}), newest |-> Max({db[i].t : i \in Idx(db)})]

(************************** laws of the definition *************************)
\* what makes the definitions one account of the same database (checked by TLC next to mechanism = definition)
SeriesTotal(ans) == SumF([x \in ans.series |-> x.n * SumF([pt \in x.s.points |-> pt.num])])
\* the points of a SUM answer add up to the totals of the selected profiles, whatever the grouping and the step cut
LawConservation(db, rq) ==
    rq.agg = "sum" => SeriesTotal(DefSelectSeries(db, rq)) = SumF([i \in DefSel(db, rq) |-> Total(db, i, ColOf(TL(db[i]), <<rq.T.st, rq.T.su>>))])
\* grouping only redistributes: the same total under every group_by
LawGrouping(db, rq) ==
    rq.agg = "sum" => SeriesTotal(DefSelectSeries(db, rq)) = SeriesTotal(DefSelectSeries(db, [rq EXCEPT !.gb = <<>>]))
\* a type id is listed by ProfileTypes iff SelectSeries over the whole time line answers something for it
LawTypes(db, T) ==
    T \in DefProfileTypes(db) <=> DefSelectSeries(db, [T |-> T, sel |-> <<>>, gb |-> <<>>, agg |-> "sum", s |-> 0, e |-> MaxT]).series # {}
\* the merged profile weighs what the time series of the same selection weighs
LawMergeTotal(db, rq) ==
    LET m == DefMergeProfile(db, rq)
        c == ColOf(m.cols, <<rq.T.st, rq.T.su>>)
    IN  SeriesTotal(DefSelectSeries(db, [T |-> rq.T, sel |-> rq.sel, gb |-> <<>>, agg |-> "sum", s |-> rq.s, e |-> rq.e]))
        = IF c = 0 THEN 0 ELSE SumF([x \in m.samples |-> x.vals[c]])
\* label names / values are those of the label sets Series answers (pseudo labels aside)
LawLabels(db, sels) ==
    LET ss == DefSeries(db, [sels |-> sels, ln |-> <<>>])
        user == UNION {{kv \in x.s : kv[1] \notin {"__name__", "__period_type__", "__period_unit__", "__sample_type__", "__sample_unit__", "__profile_type__"}} : x \in ss}
    IN  /\ DefLabelNames(db, sels) = {kv[1] : kv \in user}
        /\ \A n \in DefLabelNames(db, sels) : DefLabelValues(db, n, sels) = {kv[2] : kv \in {x \in user : x[1] = n}}
=============================================================================

------------------------ MODULE MC_PromCursorExport ------------------------
(* Evaluates the export of the step tables once (ASSUME), explores nothing. *)
EXTENDS MC_PromCursor
ASSUME Export
Stop == n < 0
=============================================================================

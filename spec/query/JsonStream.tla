----------------------------- MODULE JsonStream -----------------------------
(***************************************************************************)
(* C15.  The hand-written streaming JSON encoders of the reader are comma  *)
(* and bracket state machines driven by a channel of batches.  This module *)
(* transcribes each of them, one action per loop iteration, emitting       *)
(* TOKENS, and states the property with a stack automaton over the tokens. *)
(*                                                                         *)
(*   streams : service/queryRangeService.go  exportStreamsValue            *)
(*   tail    : service/queryRangeService.go  Tail (one document per tick)  *)
(*   matrix  : service/queryRangeService.go  QueryRange, matrix goroutine  *)
(*   vector  : service/queryRangeService.go  QueryInstant, vector goroutine*)
(*   labels  : service/queryLabelsService.go GenericLabelReq / Series      *)
(*   tags    : controller/tempoController.go Tags / Values / Search        *)
(*   trace   : controller/tempoController.go Trace (json branch)           *)
(*   traceql : controller/tempoController.go Search, TraceQL branch: the   *)
(*             only list writer that ranges over a channel of BATCHES      *)
(*             (chan []TraceInfo) with a nested loop over each batch and   *)
(*             one comma counter across all batches                        *)
(*                                                                         *)
(* INPUT  = a sequence of channel batches; an entry is a row (fp in 0..2), *)
(*          an EOF marker (Err == io.EOF) or an error marker (Err != nil). *)
(* OUTPUT = the token sequence written to the response.                    *)
(*                                                                         *)
(* The spec says what the code DOES.  Whether the new-series test of a     *)
(* writer reads `i == 0 || lastFp != fp` or only `lastFp != fp` is a       *)
(* constant derived from the source text by tools/props/c15.py.            *)
(***************************************************************************)
EXTENDS Integers, Sequences, FiniteSets, TLC

CONSTANTS
    Bounds,         \* [writer |-> <<entries fed in total (rows and markers), channel batches (>= 1, empty ones included),
                    \*               entries fed in total on inputs outside the property's domain (see Benign)>>]
    MaxTs,          \* vector rows carry a timestamp 1..MaxTs (last-value chooser)
    GuardStreams,   \* TRUE iff exportStreamsValue tests `i == 0 || lastFp != e.Fingerprint`
    GuardTail,      \* same for Tail
    GuardMatrix     \* same for the matrix goroutine of QueryRange

SeriesWriters == {"streams", "tail", "matrix"}
ListWriters   == {"labels", "tags", "trace"}
BatchListWriters == {"traceql"}                     \* list writers fed by a channel of batches (nested loop)
WriterNames   == SeriesWriters \cup ListWriters \cup BatchListWriters \cup {"vector"}
Fps           == 0..2

Writers       == DOMAIN Bounds                      \* the writers explored
MaxEntries(wr) == Bounds[wr][1]
MaxBatches(wr) == Bounds[wr][2]
MaxOutside(wr) == Bounds[wr][3]

ASSUME Writers \subseteq WriterNames /\ \A wr \in Writers : MaxBatches(wr) >= 1

VARIABLES
    w,        \* which writer
    fed,      \* entries fed so far
    hist,     \* the input so far: sequence of batches, the last one is the batch being ranged over
    pc,       \* "loop" | "emit" (vector only) | "done" | "aborted"
    lastFp, i, j,   \* the flags of the series writers (i also: item counter of list/vector writers)
    brk,      \* matrix/vector: `break` was executed in the current batch
    lv,       \* vector: lastValues map
    ord,      \* vector: order in which the map iteration delivered the fingerprints
    out       \* tokens written so far

vars == <<w, fed, hist, pc, lastFp, i, j, brk, lv, ord, out>>

---------------------------------------------------------------------------
(* tokens *)
P(t)    == [t |-> t,     k |-> "",  n |-> 0]
K(name) == [t |-> "key", k |-> name, n |-> 0]     \* "name": (the colon belongs to the key)
V(name, n) == [t |-> "val", k |-> name, n |-> n]  \* a scalar

None == [kind |-> "none", fp |-> 0, ts |-> 0, id |-> 0]

RECURSIVE Flat(_)
Flat(ss) == IF ss = <<>> THEN <<>> ELSE Head(ss) \o Flat(Tail(ss))

RECURSIVE Join(_)          \* comma-join a sequence of token sequences
Join(ss) == IF ss = <<>> THEN <<>>
            ELSE IF Len(ss) = 1 THEN ss[1]
            ELSE ss[1] \o <<P(",")>> \o Join(Tail(ss))

(* writeMap(stream, e.Labels): the series with fingerprint fp carries fp labels (0, 1 or 2) *)
MapToks(fp) == <<P("{")>> \o Join([l \in 1..fp |-> <<K("label"), V("lval", 10 * fp + l)>>]) \o <<P("}")>>

DataHdr(rt) == <<P("{"), K("status"), V("success", 0), P(","), K("data"), P("{"),
                 K("resultType"), V(rt, 0), P(","), K("result"), P("[")>>

Hdr(wr) ==
    CASE wr \in {"streams", "matrix", "vector"} -> DataHdr(wr)
      [] wr = "tail"   -> <<P("{"), K("streams"), P("[")>>
      [] wr = "labels" -> <<P("{"), K("status"), V("success", 0), P(","), K("data"), P("[")>>
      [] wr = "tags"   -> <<P("{"), K("list"), P("[")>>
      [] wr = "traceql" -> <<P("{"), K("traces"), P("[")>>
      [] wr = "trace"  -> <<P("{"), K("resourceSpans"), P("["), P("{"), K("resource"), P("{"), K("attributes"), P("["),
                            P("{"), K("key"), V("collector", 0), P(","), K("value"), P("{"), K("stringValue"),
                            V("qryn", 0), P("}"), P("}"), P("]"), P("}"), P(","),
                            K("instrumentationLibrarySpans"), P("["), P("{"), K("spans"), P("[")>>

Ftr(wr) ==
    CASE wr \in {"streams", "matrix", "vector"} -> <<P("]"), P("}"), P("}")>>
      [] wr \in {"tail", "labels", "tags", "traceql"} -> <<P("]"), P("}")>>
      [] wr = "trace"  -> <<P("]"), P("}"), P("]"), P("}"), P("]"), P("}")>>

ErrTail == <<P("]"), P("}"), P("}")>>      \* onErr(): Str: "]}}"

Guard(wr) == CASE wr = "streams" -> GuardStreams [] wr = "tail" -> GuardTail [] wr = "matrix" -> GuardMatrix
EofBreaks(wr) == wr \in {"matrix", "vector"}   \* `break` out of the batch; streams/tail `continue`

ObjOpen(wr, fp) == <<P("{"), K(IF wr = "matrix" THEN "metric" ELSE "stream")>> \o MapToks(fp)
                   \o <<P(","), K("values"), P("[")>>
ObjClose == <<P("]"), P("}")>>
ValToks(wr, e) == <<P("["), V("ts", e.id), P(","), V(IF wr = "matrix" THEN "value" ELSE "line", e.id), P("]")>>
VecObj(e) == <<P("{"), K("metric")>> \o MapToks(e.fp)
             \o <<P(","), K("value"), P("["), V("ts", e.id), P(","), V("value", e.id), P("]"), P("}")>>

---------------------------------------------------------------------------
(* the well-formedness automaton: a stack machine over the token sequence. *)
(* st: "v" a value must follow | "v]" a value or `]` | "k}" a key or `}`   *)
(*     "k" a key must follow   | ",e" a comma or the closer | "end"        *)
After(stk) == IF stk = <<>> THEN "end" ELSE ",e"
Top(stk) == stk[Len(stk)]
Pop(stk) == SubSeq(stk, 1, Len(stk) - 1)

RECURSIVE WFRun(_, _, _, _)
WFRun(toks, p, stk, st) ==
    IF p > Len(toks) THEN stk = <<>> /\ st = "end"
    ELSE LET t == toks[p].t IN
      CASE st \in {"v", "v]"} /\ t = "val" -> WFRun(toks, p + 1, stk, After(stk))
        [] st \in {"v", "v]"} /\ t = "{"   -> WFRun(toks, p + 1, Append(stk, "{"), "k}")
        [] st \in {"v", "v]"} /\ t = "["   -> WFRun(toks, p + 1, Append(stk, "["), "v]")
        [] st = "v]" /\ t = "]"            -> WFRun(toks, p + 1, Pop(stk), After(Pop(stk)))
        [] st \in {"k", "k}"} /\ t = "key" -> WFRun(toks, p + 1, stk, "v")
        [] st = "k}" /\ t = "}"            -> WFRun(toks, p + 1, Pop(stk), After(Pop(stk)))
        [] st = ",e" /\ t = ","            -> WFRun(toks, p + 1, stk, IF Top(stk) = "{" THEN "k" ELSE "v")
        [] st = ",e" /\ t = "]" /\ Top(stk) = "[" -> WFRun(toks, p + 1, Pop(stk), After(Pop(stk)))
        [] st = ",e" /\ t = "}" /\ Top(stk) = "{" -> WFRun(toks, p + 1, Pop(stk), After(Pop(stk)))
        [] OTHER -> FALSE

WF(toks) == WFRun(toks, 1, <<>>, "v")

---------------------------------------------------------------------------
(* the input and the document the property demands for it *)
Rows(h) == SelectSeq(Flat(h), LAMBDA e : e.kind = "row")
HasErr(h) == \E p \in 1..Len(Flat(h)) : Flat(h)[p].kind = "err"
(* benign: a result set as the property quantifies over it -- rows in batches, no error marker, and EOF   *)
(* markers only where the producers put them: as the last entry of a batch                                *)
Benign(h) == /\ ~HasErr(h)
             /\ \A b \in 1..Len(h) : \A p \in 1..Len(h[b]) : h[b][p].kind = "eof" => p = Len(h[b])

RECURSIVE RunLen(_, _)
RunLen(rs, fp) == IF rs = <<>> \/ rs[1].fp # fp THEN 0 ELSE 1 + RunLen(Tail(rs), fp)
RECURSIVE Runs(_)          \* maximal runs of equal fingerprint
Runs(rs) == IF rs = <<>> THEN <<>>
            ELSE LET n == RunLen(rs, rs[1].fp) IN <<SubSeq(rs, 1, n)>> \o Runs(SubSeq(rs, n + 1, Len(rs)))

SeriesDoc(wr, rs) ==
    LET runs == Runs(rs) IN
    Hdr(wr) \o Join([r \in 1..Len(runs) |->
                        ObjOpen(wr, runs[r][1].fp) \o Join([x \in 1..Len(runs[r]) |-> ValToks(wr, runs[r][x])]) \o ObjClose])
            \o Ftr(wr)

ListDoc(wr, rs) == Hdr(wr) \o Join([x \in 1..Len(rs) |-> <<V("item", rs[x].id)>>]) \o Ftr(wr)

(* vector: per fingerprint the row with the greatest timestamp, the earliest one among equals *)
Best(rs, fp) ==
    LET S == {p \in 1..Len(rs) : rs[p].fp = fp} IN
    IF S = {} THEN None
    ELSE rs[CHOOSE p \in S : \A q \in S : rs[q].ts < rs[p].ts \/ (rs[q].ts = rs[p].ts /\ p <= q)]
VecDoc(rs, order) == Hdr("vector") \o Join([x \in 1..Len(order) |-> VecObj(Best(rs, order[x]))]) \o Ftr("vector")
VecOrderOK(rs, order) == /\ \A x, y \in 1..Len(order) : x # y => order[x] # order[y]
                         /\ {order[x] : x \in 1..Len(order)} = {rs[p].fp : p \in 1..Len(rs)}

Doc == CASE w \in SeriesWriters -> SeriesDoc(w, Rows(hist))
         [] w \in ListWriters   -> ListDoc(w, Rows(hist))
         [] w \in BatchListWriters -> ListDoc(w, Rows(hist))   \* the batch boundaries leave no trace in the document
         [] w = "vector"        -> VecDoc(Rows(hist), ord)

(* the class of inputs on which a writer without the `i == 0 ||` guard misbehaves: lastFp starts at 0 *)
Hazard == /\ w \in SeriesWriters /\ ~Guard(w)
          /\ Rows(hist) # <<>> /\ Rows(hist)[1].fp = 0

---------------------------------------------------------------------------
Init ==
    /\ w \in Writers
    /\ fed = 0
    /\ hist = << <<>> >>
    /\ pc = "loop"
    /\ lastFp = 0 /\ i = 0 /\ j = 0          \* var lastFp uint64; i := 0; j := 0
    /\ brk = FALSE
    /\ lv = [fp \in Fps |-> None]
    /\ ord = <<>>
    /\ out = Hdr(w)

Entries(wr) ==
    LET id == fed + 1 IN
    CASE wr \in SeriesWriters -> {[kind |-> "row", fp |-> fp, ts |-> id, id |-> id] : fp \in Fps}
                                 \cup {[kind |-> k, fp |-> 0, ts |-> 0, id |-> id] : k \in {"eof", "err"}}
      [] wr = "vector"        -> {[kind |-> "row", fp |-> fp, ts |-> t, id |-> id] : fp \in Fps, t \in 1..MaxTs}
                                 \cup {[kind |-> k, fp |-> 0, ts |-> 0, id |-> id] : k \in {"eof", "err"}}
      [] wr \in ListWriters   -> {[kind |-> "row", fp |-> 0, ts |-> id, id |-> id],
                                  [kind |-> "err", fp |-> 0, ts |-> 0, id |-> id]}
      [] wr \in BatchListWriters -> {[kind |-> "row", fp |-> 0, ts |-> id, id |-> id]}   \* chan []TraceInfo carries no markers

Push(e) == hist' = [hist EXCEPT ![Len(hist)] = Append(@, e)] /\ fed' = fed + 1

(* one iteration of `for _, e := range entries` of exportStreamsValue / Tail / the matrix goroutine *)
SeriesIter(e) ==
    IF brk THEN UNCHANGED <<pc, lastFp, i, j, brk, out>>            \* matrix: the loop over this batch was left
    ELSE IF e.kind = "err" THEN                                       \* onErr(e.Err, res); return
        /\ pc' = "aborted"
        /\ out' = IF w = "tail" THEN <<>> ELSE out \o ErrTail         \* Tail (since fix dab116d): logs, sends no frame, closes
        /\ UNCHANGED <<lastFp, i, j, brk>>
    ELSE IF e.kind = "eof" THEN                                       \* streams: continue; matrix: break
        /\ brk' = EofBreaks(w)
        /\ UNCHANGED <<pc, lastFp, i, j, out>>
    ELSE
        LET newSeries == (Guard(w) /\ i = 0) \/ lastFp # e.fp
            closePrev == IF newSeries /\ i > 0 THEN ObjClose \o <<P(",")>> ELSE <<>>
            open      == IF newSeries THEN ObjOpen(w, e.fp) ELSE <<>>
            j1        == IF newSeries THEN 0 ELSE j
            comma     == IF j1 > 0 THEN <<P(",")>> ELSE <<>>
        IN  /\ out' = out \o closePrev \o open \o comma \o ValToks(w, e)
            /\ lastFp' = IF newSeries THEN e.fp ELSE lastFp
            /\ i' = IF newSeries THEN 1 ELSE i
            /\ j' = 1
            /\ UNCHANGED <<pc, brk>>

(* one iteration of the collecting loop of QueryInstant *)
VecIter(e) ==
    IF brk THEN UNCHANGED <<pc, lv, brk, out>>
    ELSE IF e.kind = "err" THEN pc' = "aborted" /\ out' = out \o ErrTail /\ UNCHANGED <<lv, brk>>
    ELSE IF e.kind = "eof" THEN brk' = TRUE /\ UNCHANGED <<pc, lv, out>>
    ELSE /\ lv' = IF lv[e.fp].kind = "none" \/ lv[e.fp].ts < e.ts THEN [lv EXCEPT ![e.fp] = e] ELSE lv
         /\ UNCHANGED <<pc, brk, out>>

(* one iteration of `for rows.Next()` / `for x := range ch` of the list writers *)
ListIter(e) ==
    IF e.kind = "err" THEN pc' = "done" /\ out' = out \o Ftr(w) /\ UNCHANGED i     \* break; then the closing chunk
    ELSE /\ out' = out \o (IF i # 0 THEN <<P(",")>> ELSE <<>>) \o <<V("item", e.id)>>
         /\ i' = i + 1
         /\ UNCHANGED pc

(* one iteration of the INNER loop of the TraceQL branch of Search:                                        *)
(*   for traces := range ch { for _, trace := range traces { if i != 0 { "," }; item; i++ } }             *)
(* the outer loop is Cut (the next `traces := <-ch`, possibly an empty slice): it writes nothing and keeps i *)
BatchListIter(e) ==
    /\ out' = out \o (IF i # 0 THEN <<P(",")>> ELSE <<>>) \o <<V("item", e.id)>>
    /\ i' = i + 1
    /\ UNCHANGED pc

(* inputs outside the property's domain (an error marker; an entry after an EOF marker in the same batch) are explored *)
(* to a smaller depth: they only serve the conformance of the spec with the code                                  *)
Outside(e) == LET cur == hist[Len(hist)] IN
              e.kind = "err" \/ (cur # <<>> /\ cur[Len(cur)].kind = "eof")

Feed ==
    /\ pc = "loop" /\ fed < MaxEntries(w)
    /\ \E e \in Entries(w) :
        /\ (Outside(e) \/ ~Benign(hist)) => fed < MaxOutside(w)
        /\ Push(e)
        /\ CASE w \in SeriesWriters -> SeriesIter(e) /\ UNCHANGED <<lv, ord>>
             [] w = "vector"        -> VecIter(e) /\ UNCHANGED <<lastFp, i, j, ord>>
             [] w \in ListWriters   -> ListIter(e) /\ UNCHANGED <<lastFp, j, brk, lv, ord>>
             [] w \in BatchListWriters -> BatchListIter(e) /\ UNCHANGED <<lastFp, j, brk, lv, ord>>
    /\ UNCHANGED w

(* the next `entries := <-out` *)
Cut ==
    /\ pc = "loop" /\ Len(hist) < MaxBatches(w)
    /\ hist' = Append(hist, <<>>)
    /\ brk' = FALSE
    /\ UNCHANGED <<w, fed, pc, lastFp, i, j, lv, ord, out>>

(* the channel is closed: the code after the loops *)
Close ==
    /\ pc = "loop"
    /\ CASE w \in SeriesWriters -> pc' = "done" /\ out' = out \o (IF i > 0 THEN ObjClose ELSE <<>>) \o Ftr(w)
         [] w \in ListWriters \cup BatchListWriters -> pc' = "done" /\ out' = out \o Ftr(w)
         [] w = "vector"        -> pc' = "emit" /\ out' = out
    /\ UNCHANGED <<w, fed, hist, lastFp, i, j, brk, lv, ord>>

(* `for _, e := range lastValues`: map order is arbitrary *)
EmitVec ==
    /\ pc = "emit"
    /\ \E fp \in Fps :
        /\ lv[fp].kind = "row" /\ \A x \in 1..Len(ord) : ord[x] # fp
        /\ out' = out \o (IF i > 0 THEN <<P(",")>> ELSE <<>>) \o VecObj(lv[fp])
        /\ i' = i + 1
        /\ ord' = Append(ord, fp)
    /\ UNCHANGED <<w, fed, hist, pc, lastFp, j, brk, lv>>

FinishVec ==
    /\ pc = "emit"
    /\ \A fp \in Fps : lv[fp].kind = "row" => \E x \in 1..Len(ord) : ord[x] = fp
    /\ pc' = "done" /\ out' = out \o Ftr(w)
    /\ UNCHANGED <<w, fed, hist, lastFp, i, j, brk, lv, ord>>

Next == Feed \/ Cut \/ Close \/ EmitVec \/ FinishVec
Spec == Init /\ [][Next]_vars

---------------------------------------------------------------------------
(* THE PROPERTY: for every result set the response is one well-formed document of the demanded shape --   *)
(* one object per maximal run of equal fingerprint (per fingerprint for the vector), every row once and   *)
(* in order.                                                                                              *)
Conform == out = Doc /\ (w = "vector" => VecOrderOK(Rows(hist), ord))
Property == (pc = "done" /\ Benign(hist)) => (WF(out) /\ Conform)

(* what TLC must confirm about the characterisation used for the full export run *)
OffHazard    == (pc = "done" /\ Benign(hist) /\ ~Hazard) => (WF(out) /\ Conform)
HazardIsReal == (pc = "done" /\ Benign(hist) /\ Hazard)  => ~Conform
DocIsWF      == (pc = "done" /\ Benign(hist)) => WF(Doc)
(* the list writers close their document even when the row source fails *)
ListAlwaysWF == (pc = "done" /\ w \in ListWriters) => WF(out)
TypeOK == /\ w \in Writers /\ pc \in {"loop", "emit", "done", "aborted"}
          /\ i \in 0..MaxEntries(w) /\ j \in 0..1 /\ lastFp \in Fps /\ brk \in BOOLEAN
          /\ Len(hist) \in 1..MaxBatches(w) /\ fed \in 0..MaxEntries(w)
=============================================================================

--------------------------- MODULE MC_PromCursor ---------------------------
(* Model-checking wrapper for PromCursor and export of the contract / transcription step tables that       *)
(* harness/cmd/c17 uses as the oracle while it replays every (array, call sequence) on the real cursor.     *)
EXTENDS PromCursor, Json

RefTable == { LET r == RefStep(a, p, c) IN
              [a |-> a, p |-> p, op |-> c.op, t |-> c.t, np |-> r.pos, ok |-> r.ret.ok, ts |-> r.ret.ts] :
              a \in Arrays, p \in -1..MaxLen, c \in Calls }
ImplTable == { LET r == ImplStep(a, i, c) IN
               [a |-> a, i |-> i, op |-> c.op, t |-> c.t, ni |-> r.idx, ok |-> r.ret.ok, ts |-> r.ret.ts] :
               a \in Arrays, i \in -1..(MaxLen + MaxCalls), c \in Calls }

Export == /\ JsonSerialize("cursor_ref.json", [rows |-> {e \in RefTable : e.p <= Len(e.a)}])
          /\ JsonSerialize("cursor_impl.json", [rows |-> ImplTable])
=============================================================================

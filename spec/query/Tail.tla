-------------------------------- MODULE Tail --------------------------------
(***************************************************************************)
(* The live tail of logs (extra check X01).                                *)
(*                                                                         *)
(*   reader/controller/queryRangeController.go  Tail   (websocket handler) *)
(*   reader/service/queryRangeService.go        Tail   (service goroutine) *)
(*                                                                         *)
(* One action per step of the code:                                        *)
(*   handler   : Request (pre-checks, service.Tail, Upgrade), the three    *)
(*               branches of its select (HCtx, HPing, HRecv/HRecvClosed),  *)
(*               every branch ending in one WriteMessage; the deferred     *)
(*               chain (con.Close, watcher.Close, drainer, cancel) = exit  *)
(*   reader    : the goroutine looping on con.ReadMessage (close handler)  *)
(*   drainer   : the deferred `for range watcher.GetRes()`                 *)
(*   service   : STick (ticker), SVersion (GetVersionInfo), SDone (Done    *)
(*               check), SQuery (Process over [from, now) + the loop that  *)
(*               builds the frame and advances `from`), the rendezvous on  *)
(*               the UNBUFFERED result channel (HRecv / DRecv), SExit      *)
(*               (deferred close(res), cancel, ticker.Stop)                *)
(*   world     : StoreLine (a line becomes visible to the query, with ANY  *)
(*               timestamp), Tick (one second passes: both tickers fire),  *)
(*               ClientClose (close frame), ClientDrop (connection lost),  *)
(*               ClientRead, database faults (parameters of SVersion and   *)
(*               SQuery), VExpire (the 10 s dbVersion cache)               *)
(*                                                                         *)
(* The specification describes the INTENDED behaviour; the places where    *)
(* the code as written departs from it are named switches (Dev):           *)
(*   spin_on_closed     `case str := <-watcher.GetRes()` has no `ok`: once *)
(*                      the service goroutine closed the channel (database *)
(*                      error) the handler receives zero values for ever   *)
(*                      and writes each as an (empty) websocket message    *)
(*                      instead of ending the connection                   *)
(*   err_frame          onErr() sends "]}}" - the tail of a query_range    *)
(*                      document - as a frame of its own                   *)
(*   row_err_unnoticed  ClickhouseGetterPlanner.Scan never looks at        *)
(*                      rows.Err(): a database error while the rows are    *)
(*                      read ends the result like a complete one; the      *)
(*                      frame is partial and `from` moves past lines that  *)
(*                      were never delivered                               *)
(*   cursor_stuck       `if from.UnixNano() < e.TimestampNS` moves the     *)
(*                      cursor only past lines NEWER than it: a line whose *)
(*                      timestamp EQUALS the cursor (newest delivered      *)
(*                      + 1 ns, or the initial now - 5 min) is delivered   *)
(*                      and the cursor stays: the line is delivered again  *)
(*                      on every tick until a newer line arrives           *)
(*   silent_refusal     an empty / unparsable query is answered by an      *)
(*                      empty 200 response                                 *)
(* With Dev = {} every property below holds (MC_Tail).  A recorded run of  *)
(* the real code must be a behaviour of Dev = {} (Trace_Tail).  To name    *)
(* what a refused run did, the trace is explained with Mixed = TRUE: at    *)
(* every switch both branches are allowed and the ghost `used` collects    *)
(* the as-coded branches taken where they differ from the intended ones;   *)
(* used = {} on some accepting path <=> behaviour of the specification.    *)
(*                                                                         *)
(* The cursor design itself has a NAMED LIMIT that is part of this         *)
(* specification, not a switch: the tail asks for [from, now) and then     *)
(* sets from := newest delivered timestamp + 1.  A line that becomes       *)
(* visible AFTER a tick with a timestamp below the cursor (older than, or  *)
(* equal to, the newest line already delivered; or older than the 5 min    *)
(* look-back at the start) can never be delivered: cls = "old".  Exactly   *)
(* these lines are lost; every other line is delivered exactly once.       *)
(***************************************************************************)
EXTENDS Integers, Sequences, FiniteSets, TLC

CONSTANTS
    Lines,      \* line identifiers
    MaxT,       \* timestamps and the clock live in 0..MaxT
    Dev,        \* as-coded deviations switched on
    Mixed,      \* TRUE: the intended branch is allowed next to every as-coded one (explaining recorded runs)
    Faults,     \* database faults the world may inject: subset of {"version","query","row","scan"}
    MaxStale,   \* writes that may still succeed after the peer dropped the connection (TCP buffering)
    MaxWire     \* frames in flight towards the client (back pressure of the connection)

AllDev == {"spin_on_closed", "err_frame", "row_err_unnoticed", "cursor_stuck", "silent_refusal"}
AsCoded(d) == d \in Dev                  \* the as-coded branch of switch d may be taken
AsIntended(d) == Mixed \/ d \notin Dev      \* the intended branch of switch d may be taken

VARIABLES
    now,        \* wall clock
    store,      \* set of [id, ts]: lines visible to the query
    req,        \* "none" | "ok" | "empty" | "noparse" | "noupgrade"
    status,     \* HTTP status class of the answer: 0 none yet | 101 upgraded | 200 | 400
    client,     \* "none" | "open" | "closing" | "closed" | "dropped" | "refused"
    hpc,        \* handler: "idle" | "select" | "term"
    rpc,        \* reader goroutine: "none" | "read" | "term"
    dpc,        \* drainer goroutine: "none" | "drain" | "term"
    spc,        \* service goroutine: "none" | "tick" | "version" | "done" | "query" | "send" | "errsend" | "exit" | "term"
    from,       \* cursor of the service goroutine
    buf,        \* the message the service goroutine offers on the channel
    chClosed,   \* result channel closed
    wdone,      \* Watcher context cancelled (watcher.Close())
    cancelled,  \* watchCtx cancelled (cancel()) - parent of the contexts handed to the database
    svcTick,    \* a tick is waiting in the service ticker's channel (capacity 1)
    pingTick,   \* same for the handler's ping ticker
    vcached,    \* dbVersion cache is warm
    wire,       \* frames written by the handler, not yet read by the client
    stale,      \* writes that succeeded after the peer dropped
    fault,      \* the database fault that happened ("none": none yet; one per request)
    \* ---- ghosts
    sent,       \* ids the service goroutine put into a frame
    cls,        \* Lines -> "none" | "old" | "due" | "future": position of the line at the first query after it was stored
    delivered,  \* ids read by the client
    flags,      \* "dup_sent", "dup_delivered", "bad_frame"
    late,       \* ticks the service goroutine consumed after the handler returned
    used        \* as-coded branches taken (where they differ from the intended ones)

vars == <<now, store, req, status, client, hpc, rpc, dpc, spc, from, buf, chClosed, wdone, cancelled, svcTick, pingTick,
          vcached, wire, stale, fault, sent, cls, delivered, flags, late, used>>

Max(a, b) == IF a > b THEN a ELSE b
MaxOf(S) == CHOOSE x \in S : \A y \in S : y <= x
Ids(S) == {l.id : l \in S}
TsOf(id) == (CHOOSE l \in store : l.id = id).ts

OkFrame(ids)  == [k |-> "ok", ids |-> ids]
Ping          == OkFrame({})                  \* {"streams":[]}
EmptyMsg      == [k |-> "empty", ids |-> {}]  \* a zero-length message (zero value received from the closed channel)
ErrTail       == [k |-> "errtail", ids |-> {}]   \* "]}}"
WellFormed(f) == f.k = "ok"

Init ==
    /\ now = 2 /\ store = {} /\ req = "none" /\ status = 0 /\ client = "none"
    /\ hpc = "idle" /\ rpc = "none" /\ dpc = "none" /\ spc = "none"
    /\ from = 0 /\ buf = Ping /\ chClosed = FALSE /\ wdone = FALSE /\ cancelled = FALSE
    /\ svcTick = FALSE /\ pingTick = FALSE /\ vcached = FALSE
    /\ wire = <<>> /\ stale = 0 /\ fault = "none"
    /\ sent = {} /\ cls = [l \in Lines |-> "none"] /\ delivered = {} /\ flags = {} /\ late = 0 /\ used = {}

\* all variables back to their initial values (next recorded run of a concatenated trace)
Restart ==
    /\ now' = 2 /\ store' = {} /\ req' = "none" /\ status' = 0 /\ client' = "none"
    /\ hpc' = "idle" /\ rpc' = "none" /\ dpc' = "none" /\ spc' = "none"
    /\ from' = 0 /\ buf' = Ping /\ chClosed' = FALSE /\ wdone' = FALSE /\ cancelled' = FALSE
    /\ svcTick' = FALSE /\ pingTick' = FALSE /\ vcached' = FALSE
    /\ wire' = <<>> /\ stale' = 0 /\ fault' = "none"
    /\ sent' = {} /\ cls' = [l \in Lines |-> "none"] /\ delivered' = {} /\ flags' = {} /\ late' = 0 /\ used' = {}

-----------------------------------------------------------------------------
(* the world *)

StoreLine(l, t) ==
    /\ l \notin Ids(store)
    /\ store' = store \cup {[id |-> l, ts |-> t]}
    /\ UNCHANGED <<now, req, status, client, hpc, rpc, dpc, spc, from, buf, chClosed, wdone, cancelled, svcTick, pingTick,
                   vcached, wire, stale, fault, sent, cls, delivered, flags, late, used>>

\* one second passes; a ticker whose channel still holds a tick drops the new one
Tick ==
    /\ now' = IF now < MaxT THEN now + 1 ELSE now
    /\ svcTick' = (spc \notin {"none", "term"})
    /\ pingTick' = (hpc = "select")
    /\ UNCHANGED <<store, req, status, client, hpc, rpc, dpc, spc, from, buf, chClosed, wdone, cancelled,
                   vcached, wire, stale, fault, sent, cls, delivered, flags, late, used>>

VExpire ==
    /\ vcached /\ vcached' = FALSE
    /\ UNCHANGED <<now, store, req, status, client, hpc, rpc, dpc, spc, from, buf, chClosed, wdone, cancelled, svcTick, pingTick,
                   wire, stale, fault, sent, cls, delivered, flags, late, used>>

ClientClose ==
    /\ client = "open" /\ client' = "closing"
    /\ UNCHANGED <<now, store, req, status, hpc, rpc, dpc, spc, from, buf, chClosed, wdone, cancelled, svcTick, pingTick,
                   vcached, wire, stale, fault, sent, cls, delivered, flags, late, used>>

ClientDrop ==
    /\ client = "open" /\ client' = "dropped" /\ wire' = <<>>
    /\ UNCHANGED <<now, store, req, status, hpc, rpc, dpc, spc, from, buf, chClosed, wdone, cancelled, svcTick, pingTick,
                   vcached, stale, fault, sent, cls, delivered, flags, late, used>>

ClientRead ==
    /\ client \in {"open", "closing", "closed"} /\ wire # <<>>
    /\ LET f == Head(wire) IN
          /\ delivered' = delivered \cup f.ids
          /\ flags' = IF f.ids \cap delivered # {} THEN flags \cup {"dup_delivered"} ELSE flags
    /\ wire' = Tail(wire)
    /\ UNCHANGED <<now, store, req, status, client, hpc, rpc, dpc, spc, from, buf, chClosed, wdone, cancelled, svcTick, pingTick,
                   vcached, stale, fault, sent, cls, late, used>>

-----------------------------------------------------------------------------
(* the handler *)

\* the request arrives. f0 = time.Now() - 5 min inside service.Tail
Request(k, f0) ==
    /\ hpc = "idle" /\ req = "none" /\ req' = k
    /\ CASE k \in {"empty", "noparse"} ->             \* `query == ""` / Transpile fails: return before anything is started
               /\ hpc' = "term" /\ client' = "refused"
               /\ (\/ AsIntended("silent_refusal") /\ status' = 400 /\ used' = used                        \* an error status
                   \/ AsCoded("silent_refusal") /\ status' = 200 /\ used' = used \cup {"silent_refusal"}) \* as coded: log, return
               /\ UNCHANGED <<rpc, dpc, spc, from, wdone, cancelled>>
         [] k = "noupgrade" ->                         \* service.Tail started its goroutine, Upgrade fails (400): deferred chain
               /\ hpc' = "term" /\ client' = "refused" /\ status' = 400
               /\ spc' = "tick" /\ from' = f0
               /\ wdone' = TRUE /\ cancelled' = TRUE /\ dpc' = "drain"
               /\ UNCHANGED <<rpc, used>>
         [] k = "ok" ->
               /\ hpc' = "select" /\ client' = "open" /\ rpc' = "read" /\ status' = 101
               /\ spc' = "tick" /\ from' = f0
               /\ UNCHANGED <<dpc, wdone, cancelled, used>>
    /\ svcTick' = FALSE /\ pingTick' = FALSE
    /\ UNCHANGED <<now, store, buf, chClosed, vcached, wire, stale, fault, sent, cls, delivered, flags, late>>

\* return from the handler: con.Close(); watcher.Close(); go drain; cancel()
ExitEffects ==
    /\ hpc' = "term" /\ wdone' = TRUE /\ cancelled' = TRUE /\ dpc' = "drain"

StayEffects == UNCHANGED <<hpc, wdone, cancelled, dpc>>

\* con.WriteMessage(f): reaches the wire, vanishes in the buffers of a dropped connection, or fails
Write(f) ==
    \/ /\ client # "dropped" /\ Len(wire) < MaxWire
       /\ wire' = Append(wire, f) /\ stale' = stale
       /\ flags' = IF WellFormed(f) THEN flags ELSE flags \cup {"bad_frame"}
       /\ StayEffects
    \/ /\ client = "dropped" /\ stale < MaxStale
       /\ stale' = stale + 1 /\ UNCHANGED <<wire, flags>>
       /\ StayEffects
    \/ /\ client = "dropped"
       /\ UNCHANGED <<wire, stale, flags>>
       /\ ExitEffects

HCtx ==                                               \* case <-watchCtx.Done(): return
    /\ hpc = "select" /\ cancelled
    /\ ExitEffects
    /\ UNCHANGED <<now, store, req, status, client, rpc, spc, from, buf, chClosed, svcTick, pingTick,
                   vcached, wire, stale, fault, sent, cls, delivered, flags, late, used>>

HPing ==                                              \* case <-pingTimer.C: write {"streams":[]}
    /\ hpc = "select" /\ pingTick /\ pingTick' = FALSE
    /\ Write(Ping)
    /\ UNCHANGED <<now, store, req, status, client, rpc, spc, from, buf, chClosed, svcTick,
                   vcached, fault, sent, cls, delivered, late, used>>

\* the service goroutine's side of a completed send
AfterSend == spc' = IF spc = "send" THEN "tick" ELSE "exit"

HRecv ==                                              \* case str := <-watcher.GetRes(): write str.Str
    /\ hpc = "select" /\ ~chClosed /\ spc \in {"send", "errsend"}
    /\ AfterSend
    /\ Write(buf)
    /\ UNCHANGED <<now, store, req, status, client, rpc, from, buf, chClosed, svcTick, pingTick,
                   vcached, fault, sent, cls, delivered, late, used>>

HRecvClosed ==                                        \* the same case on the CLOSED channel
    /\ hpc = "select" /\ chClosed
    /\ \/ AsIntended("spin_on_closed") /\ ExitEffects /\ UNCHANGED <<wire, stale, flags, used>>   \* `str, ok := <-ch; if !ok { return }`
       \/ AsCoded("spin_on_closed") /\ Write(EmptyMsg)    \* as coded: zero value, written as a message, again and again
          /\ used' = used \cup {"spin_on_closed"}
    /\ UNCHANGED <<now, store, req, status, client, rpc, spc, from, buf, chClosed, svcTick, pingTick,
                   vcached, fault, sent, cls, delivered, late>>

-----------------------------------------------------------------------------
(* the reader goroutine: for { con.ReadMessage() } *)

RClose ==                                             \* close frame: the close handler runs watcher.Close(); cancel()
    /\ rpc = "read" /\ client = "closing"
    /\ rpc' = "term" /\ client' = "closed" /\ wdone' = TRUE /\ cancelled' = TRUE
    /\ UNCHANGED <<now, store, req, status, hpc, dpc, spc, from, buf, chClosed, svcTick, pingTick,
                   vcached, wire, stale, fault, sent, cls, delivered, flags, late, used>>

RDrop ==                                              \* read error: the goroutine ends, NOTHING is cancelled
    /\ rpc = "read" /\ (client = "dropped" \/ hpc = "term")
    /\ rpc' = "term"
    /\ UNCHANGED <<now, store, req, status, client, hpc, dpc, spc, from, buf, chClosed, wdone, cancelled, svcTick, pingTick,
                   vcached, wire, stale, fault, sent, cls, delivered, flags, late, used>>

-----------------------------------------------------------------------------
(* the drainer: go func() { for range watcher.GetRes() {} }() *)

DRecv ==
    /\ dpc = "drain" /\ ~chClosed /\ spc \in {"send", "errsend"}
    /\ AfterSend
    /\ UNCHANGED <<now, store, req, status, client, hpc, rpc, dpc, from, buf, chClosed, wdone, cancelled, svcTick, pingTick,
                   vcached, wire, stale, fault, sent, cls, delivered, flags, late, used>>

DEnd ==
    /\ dpc = "drain" /\ chClosed /\ dpc' = "term"
    /\ UNCHANGED <<now, store, req, status, client, hpc, rpc, spc, from, buf, chClosed, wdone, cancelled, svcTick, pingTick,
                   vcached, wire, stale, fault, sent, cls, delivered, flags, late, used>>

-----------------------------------------------------------------------------
(* the service goroutine *)

STick ==                                              \* for _ = range ticker.C
    /\ spc = "tick" /\ svcTick /\ svcTick' = FALSE /\ spc' = "version"
    /\ late' = IF hpc = "term" /\ late < 3 THEN late + 1 ELSE late
    /\ UNCHANGED <<now, store, req, status, client, hpc, rpc, dpc, from, buf, chClosed, wdone, cancelled, pingTick,
                   vcached, wire, stale, fault, sent, cls, delivered, flags, used>>

\* dbVersion.GetVersionInfo(ctx, ..): o = "cached" | "ok" | "version" (database error) | "ctx" (context already cancelled)
\* (database/sql looks at the context a moment before the database acts: a cancellation in between does not stop the statement,
\* so "ok" / "version" / the outcomes of SQuery are not guarded by ~cancelled)
SVersion(o) ==
    /\ spc = "version"
    /\ CASE o = "cached"  -> vcached /\ spc' = "done" /\ UNCHANGED <<vcached, fault>>
         [] o = "ctx"     -> ~vcached /\ cancelled /\ spc' = "exit" /\ UNCHANGED <<vcached, fault>>
         [] o = "ok"      -> ~vcached /\ vcached' = TRUE /\ spc' = "done" /\ UNCHANGED fault
         [] o = "version" -> ~vcached /\ "version" \in Faults /\ fault = "none"
                             /\ fault' = "version" /\ spc' = "exit" /\ UNCHANGED vcached
    /\ UNCHANGED <<now, store, req, status, client, hpc, rpc, dpc, from, buf, chClosed, wdone, cancelled, svcTick, pingTick,
                   wire, stale, sent, cls, delivered, flags, late, used>>

SDone ==                                              \* select { case <-res.Done(): return; default: }
    /\ spc = "done"
    /\ spc' = IF wdone THEN "exit" ELSE "query"
    /\ UNCHANGED <<now, store, req, status, client, hpc, rpc, dpc, from, buf, chClosed, wdone, cancelled, svcTick, pingTick,
                   vcached, wire, stale, fault, sent, cls, delivered, flags, late, used>>

Rows(to) == {l \in store : from <= l.ts /\ l.ts < to}     \* samples.timestamp_ns >= from AND < to

\* the frame loop over the rows P that arrived, and what it does to the cursor and the ghosts (tags: switches the caller took)
Deliver(to, P, tags) ==
    /\ buf' = OkFrame(Ids(P))
    /\ sent' = sent \cup Ids(P)
    /\ flags' = IF Ids(P) \cap sent # {} THEN flags \cup {"dup_sent"} ELSE flags
    /\ IF P = {} THEN from' = from /\ used' = used \cup tags
       ELSE LET m == MaxOf({l.ts : l \in P})
                intended == Max(from, m + 1)                        \* from := newest timestamp in the frame + 1
                coded    == IF from < m THEN m + 1 ELSE from        \* as coded: `if from < ts { from = ts + 1 }`
            IN  IF intended = coded THEN from' = intended /\ used' = used \cup tags
                ELSE \/ AsIntended("cursor_stuck") /\ from' = intended /\ used' = used \cup tags
                     \/ AsCoded("cursor_stuck") /\ from' = coded /\ used' = used \cup tags \cup {"cursor_stuck"}
    /\ cls' = [l \in Lines |->
                 IF cls[l] # "none" \/ l \notin Ids(store) THEN cls[l]
                 ELSE IF TsOf(l) < from THEN "old" ELSE IF TsOf(l) < to THEN "due" ELSE "future"]
    /\ spc' = "send"

\* an error ENTRY reaches the frame loop: the tick is abandoned, the goroutine returns (and closes the channel)
ErrorEntry ==
    /\ \/ AsIntended("err_frame") /\ spc' = "exit" /\ UNCHANGED <<buf, used>>
       \/ AsCoded("err_frame") /\ spc' = "errsend" /\ buf' = ErrTail /\ used' = used \cup {"err_frame"}   \* onErr(e.Err, res): res <- "]}}"
    /\ UNCHANGED <<sent, flags, from, cls>>

\* Process(plan, [from, to)) and the loop over `out`.
\*   o = "none"  complete answer            o = "query" QueryCtx fails        o = "ctx" the context is already cancelled
\*   o = "row"   the database fails after the rows P were handed over (rows.Next() false, rows.Err() set)
\*   o = "scan"  the row after P cannot be decoded: an error ENTRY reaches the frame loop
SQuery(to, o, P) ==
    /\ spc = "query"
    /\ CASE o = "ctx"   -> cancelled /\ P = {} /\ spc' = "exit" /\ UNCHANGED <<buf, sent, flags, from, cls, fault, used>>
         [] o = "none"  -> P = Rows(to) /\ Deliver(to, P, {}) /\ UNCHANGED fault
         [] o = "query" -> "query" \in Faults /\ fault = "none" /\ P = {}
                           /\ fault' = "query" /\ spc' = "exit" /\ UNCHANGED <<buf, sent, flags, from, cls, used>>
         [] o = "row"   -> "row" \in Faults /\ fault = "none" /\ P \subseteq Rows(to)
                           /\ fault' = "row"
                           /\ (\/ AsIntended("row_err_unnoticed") /\ ErrorEntry              \* rows.Err() handed on as an error entry
                               \/ AsCoded("row_err_unnoticed") /\ Deliver(to, P, {"row_err_unnoticed"}))  \* as coded: looks complete
         [] o = "scan"  -> "scan" \in Faults /\ fault = "none" /\ P \subseteq Rows(to) /\ P # Rows(to)
                           /\ fault' = "scan"
                           /\ ErrorEntry
    /\ UNCHANGED <<now, store, req, status, client, hpc, rpc, dpc, chClosed, wdone, cancelled, svcTick, pingTick,
                   vcached, wire, stale, delivered, late>>

SExit ==                                              \* deferred: ticker.Stop(); close(res); cancel()
    /\ spc = "exit" /\ spc' = "term" /\ chClosed' = TRUE /\ svcTick' = FALSE
    /\ UNCHANGED <<now, store, req, status, client, hpc, rpc, dpc, from, buf, wdone, cancelled, pingTick,
                   vcached, wire, stale, fault, sent, cls, delivered, flags, late, used>>

-----------------------------------------------------------------------------
(* properties *)

AllDone == /\ hpc = "term"
           /\ rpc \in {"none", "term"} /\ dpc \in {"none", "term"} /\ spc \in {"none", "term"}
Gone == client \in {"closed", "dropped", "refused"}

TypeOK ==
    /\ now \in 0..MaxT /\ from \in 0..(MaxT + 1)
    /\ \A l \in store : l.id \in Lines /\ l.ts \in 0..MaxT
    /\ req \in {"none", "ok", "empty", "noparse", "noupgrade"} /\ status \in {0, 101, 200, 400}
    /\ client \in {"none", "open", "closing", "closed", "dropped", "refused"}
    /\ hpc \in {"idle", "select", "term"} /\ rpc \in {"none", "read", "term"} /\ dpc \in {"none", "drain", "term"}
    /\ spc \in {"none", "tick", "version", "done", "query", "send", "errsend", "exit", "term"}
    /\ buf.k \in {"ok", "errtail"} /\ Len(wire) <= MaxWire /\ stale \in 0..MaxStale
    /\ sent \subseteq Lines /\ delivered \subseteq Lines /\ used \subseteq AllDev

\* ---- delivery
NoDuplicate       == "dup_sent" \notin flags /\ "dup_delivered" \notin flags
DueDelivered      == \A l \in Lines : cls[l] = "due" => l \in sent          \* visible and inside [from, now): in that very frame
FutureNotSkipped  == \A l \in store : (cls[l.id] = "future" /\ l.id \notin sent) => l.ts >= from   \* the cursor never jumps over it
OldNeverDelivered == \A l \in Lines : cls[l] = "old" => l \notin sent       \* the named limit of the design, exactly
OnlyStoredLines   == delivered \subseteq sent /\ sent \subseteq Ids(store)
\* ---- frames
NoBadFrame        == "bad_frame" \notin flags                                \* every message is one well-formed JSON document
\* ---- life cycle
ServiceStopsAfterHandler == late <= 1                   \* at most one more tick after the handler returned
DrainerOnlyAfterHandler  == dpc # "none" => hpc = "term"
ClosedOnlyByService      == chClosed <=> spc = "term"
RefusedStartsNothing     == req \in {"empty", "noparse"} => spc = "none" /\ rpc = "none" /\ dpc = "none"
RefusalIsAnError         == client = "refused" => status >= 400
NothingAsCoded           == used = {}                   \* (Dev = {}: no as-coded branch exists)
NoFrameAfterReturn       == [][hpc = "term" => Len(wire') <= Len(wire)]_vars

\* ---- liveness (under the fairness of MC_Tail!Fair)
Termination       == Gone ~> AllDone                    \* every goroutine of the request ends once the client is gone
SenderNeverStuck  == (spc \in {"send", "errsend"}) ~> (spc \notin {"send", "errsend"})   \* nobody stays blocked on the unbuffered channel
ClosedEndsHandler == chClosed ~> (hpc = "term")         \* database error: the handler ends the connection
EventuallyDelivered ==
    \A l \in Lines : (cls[l] \in {"due", "future"}) ~> (l \in sent \/ spc \in {"exit", "term"} \/ fault # "none")
=============================================================================

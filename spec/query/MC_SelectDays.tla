--------------------------- MODULE MC_SelectDays ---------------------------
(* Model-checking wrapper for SelectDays and export of the cases (zone, window, the shapes the DEFINITION   *)
(* selects with their samples of the window) that harness/cmd/c17 `seldays` concretises (seeded zone of the  *)
(* offset class, seeded calendar day incl. month / year boundaries, seeded instants inside the ticks) and    *)
(* runs through the real CLokiQuerier.Select with time.Local set to the zone.                                *)
EXTENDS SelectDays, Json

CONSTANT OutFile

MCZoneOffs == {0 - 1, 0, 1}
CaseOf(z, s, e) == [zone |-> z, s |-> s, e |-> e,
                    sel |-> {[shape |-> S, win |-> InWin(S, s, e)] : S \in DefSelected(s, e)},
                    mech_local_hi |-> Cardinality(MechSelected("utc", "local", s, e, z)),
                    mech_local_lo |-> Cardinality(MechSelected("local", "utc", s, e, z))]
Export == OutFile = "" \/
          JsonSerialize(OutFile, [days |-> Days, dayticks |-> DayTicks, shapes |-> Shapes,
                                  cases |-> {CaseOf(z, w[1], w[2]) : z \in ZoneOffs, w \in Windows}])
ASSUME LocalRuleMisses
ASSUME Export
=============================================================================

---- MODULE MC_WriterLifecycleCases ----
(***************************************************************************)
(* Case export for the data-shaped rules of WriterLifecycle: every         *)
(* (DSN header, mode, registry draws) with the outcome RouteOutcomeL gives *)
(* under the quirk set of the .cfg, for both layers (HTTP handlers /       *)
(* IInsertServiceV2.Request), the properties that outcome breaks, and      *)
(* every watchdog Check case (set of stale services -> verdicts).          *)
(* Run three times: _q (the quirk set the code is believed to have), _i    *)
(* (all quirks off: what the properties demand) and _m (all quirks on,     *)
(* including the retired ones: model mutations); tools/props/x03.py joins  *)
(* them and cmd/x03 `cases` compares the real code with all three - real   *)
(* code that matches only a mutation is reported under what it breaks.     *)
(***************************************************************************)
EXTENDS WriterLifecycle, Json

CONSTANT OutFile
WdKindsLogs == <<"ts", "spl">>

Draws(d) == { nd \in [Kinds -> Nodes] : DrawOK(d, nd) }

\* the state invariants of WriterLifecycle, read on one outcome
Broken(d, h, o) ==
    (IF d \in Nodes /\ \E k \in Kinds : o.node[k] \notin {d, "none"} THEN {"NamedNodeObeyed"} ELSE {})
    \cup (IF d \notin Nodes /\ d # "" /\ o.st = "routed" THEN {"UnknownDsnRefused"} ELSE {})
    \cup (IF o.st = "routed" /\ \E k1, k2 \in Kinds : o.node[k1] # o.node[k2] THEN {"PushOnOneNode"} ELSE {})
    \cup (IF o.st = "routed" /\ \E k \in Kinds : o.pool[k] # IntendedPool(o.node[k], h) THEN {"NamedModeObeyed"} ELSE {})

RouteCases ==
    { [ d |-> d, h |-> h, nd |-> nd,
        http |-> RouteOutcomeL(TRUE, d, h, nd),  httpBroken |-> Broken(d, h, RouteOutcomeL(TRUE, d, h, nd)),
        svc  |-> RouteOutcomeL(FALSE, d, h, nd), svcBroken  |-> Broken(d, h, RouteOutcomeL(FALSE, d, h, nd)) ]
      : d \in Dsns, h \in Hdrs, nd \in UNION { Draws(dd) : dd \in Dsns } } 

RouteCasesOK == { c \in RouteCases : DrawOK(c.d, c.nd) }

StaleSets == { S \in SUBSET Svc : Cardinality(S) <= 2 }
WdCases == { [ stale |-> S, verdicts |-> { WdVerdict(nd, S) : nd \in Nodes }, demanded |-> (S # {}) ] : S \in StaleSets }

\* configured ParallelNum -> workers per pool
ClampCases == { [ p |-> p, w |-> Clamp(p) ] : p \in -2..4 }

Export == OutFile = "" \/ JsonSerialize(OutFile, [ route |-> RouteCasesOK, wd |-> WdCases, clamp |-> ClampCases ])
ASSUME Export

CInit == Init
CNext == UNCHANGED vars
CSpec == CInit /\ [][CNext]_vars
====

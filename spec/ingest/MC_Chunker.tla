---- MODULE MC_Chunker ----
EXTENDS Chunker, Json
\* every finished decoding (or panic) is exported as one case for the replay driver
ExportCase ==
    (pc \in {"done", "panic"}) =>
        PrintT(<<"CASE", ToJson([kind |-> kind, body |-> body, panic |-> (pc = "panic"),
                                 chunks |-> [k \in DOMAIN out |-> [n |-> Len(out[k].rows), ntypes |-> out[k].ntypes,
                                                                   nseries |-> Cardinality(out[k].series)]]])>>)
====

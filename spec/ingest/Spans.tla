------------------------------- MODULE Spans -------------------------------
(***************************************************************************************************************)
(* C06 - a stored span reads back as the span that was pushed.                                                 *)
(*                                                                                                             *)
(* One behaviour = one request body travelling through the span decoders of the writer                          *)
(*   writer/utils/unmarshal/zipkinJsonUnmarshal.go   zipkinDecoderV2.Decode / zipkinNDDecoderV2.Decode /        *)
(*                                                   decodeSpan (a per-key switch mutating the decoder struct)  *)
(*   writer/utils/unmarshal/otlpUnmarshal.go         OTLPDecoder.Decode / populateServiceNames / writeAttrValue *)
(*   writer/utils/unmarshal/builder.go               parserDoer.onSpan (rows, size accounting, 1 MiB flush)     *)
(* into the rows of tempo_traces / tempo_traces_attrs_gin, followed by the read path                            *)
(*   reader/service/tempoService.go                  Query (ORDER BY timestamp_ns) / OutputQuery (stops at the   *)
(*                                                   first undecodable row) / parseZipkinJSON / parseOTLP       *)
(* as operators over the final rows.  The MECHANISM is transcribed rule by rule, in the order the code works    *)
(* (the Zipkin decoder one JSON key per step, in the order the keys arrive).  The DEFINITION (Def..) is what the  *)
(* property statement demands of a span independent of key order, framing and position in the body.            *)
(* `Flags' lists the clauses of the statement the mechanism breaks for the body at hand (CANDIDATES; the        *)
(* binding runs the real code on the same body and decides).                                                   *)
(*                                                                                                             *)
(* Abstract data.  An id is a sequence of blocks (a block = 16 hex digits of a trace id, 8 of a span id);       *)
(* W blocks make a full id, fewer a short one that needs left padding; block "0" is all zeros, "f" all f's.     *)
(* A block of LowBlocks is a block whose VALUE has leading zero digits and an ODD number of significant digits   *)
(* (e.g. 00000abc).  A Zipkin body carries its SPELLING of the ids: "padded" = every block written with all its   *)
(* digits, "stripped" = the id written without its leading zero digits (what a client using %x prints: a short    *)
(* id, possibly with an odd number of digits, a single "0" for a zero id), "any" = left to the binding's sampler. *)
(* The value of an id, hence everything the statement demands, does not depend on the spelling.                  *)
(* Strings starting with "@" are atoms the binding replaces by hostile concrete strings / numbers.              *)
(* Times are small naturals the binding maps affinely onto real epoch times.                                    *)
(***************************************************************************************************************)
EXTENDS Integers, Sequences, FiniteSets, TLC

CONSTANTS Bodies,     \* the request bodies explored (see MC_Spans)
          Limit       \* parserDoer: p.attrs.Size+p.spans.Size > 1 MiB -> intermediate response (in size units of 64 KiB)

VARIABLES body,       \* the request body (constant along a behaviour)
          pc,         \* "start" | "keys" | "next" | "done" | "rejected"
          i,          \* number of spans (array elements / lines / OTLP spans) entered so far
          j,          \* number of JSON members of span i consumed so far (Zipkin)
          z,          \* the zipkinDecoderV2 struct
          cur,        \* parserDoer.spans / parserDoer.attrs being filled
          sent        \* ParserResponses handed to the insert services so far
vars == <<body, pc, i, j, z, cur, sent>>

W == 2
NoName == "~"                         \* an endpoint object without "serviceName"
DefaultSvc == "OTLPResourceNoServiceName"

----------------------------------------------------------------------------------------------------------------
(* helpers *)
RECURSIVE Flat(_)
Flat(ss) == IF ss = <<>> THEN <<>> ELSE Head(ss) \o Flat(Tail(ss))
Range(s) == {s[k] : k \in DOMAIN s}
Zeros(n) == [k \in 1..n |-> "0"]
SelectIdx(s, P(_)) == {k \in DOMAIN s : P(s[k])}
Last(s) == s[Len(s)]
Count(s, P(_)) == Cardinality({k \in DOMAIN s : P(s[k])})

(* attribute values (OTLP AnyValue oneof), uniform shape: t in str|int|double|bool|list|map *)
AV(t, a, e, kv) == [t |-> t, a |-> a, e |-> e, kv |-> kv]
StrV(a) == AV("str", a, <<>>, <<>>)
KV(k, v) == [k |-> k, v |-> v]
(* a tag-index value: how the writer renders it (r) and from which atom (a) *)
TV(r, a) == [r |-> r, a |-> a]
Tag(path, v) == [k |-> path, v |-> v]

----------------------------------------------------------------------------------------------------------------
(* decodeHexStr(hexStr, leng): shorter -> left padded with '0'; then cut to leng; hex decoded *)
DecodeHex(id) == LET p == IF Len(id) < W THEN Zeros(W - Len(id)) \o id ELSE id IN SubSeq(p, 1, W)

(* the spelling of an id on the wire (Zipkin): which blocks are written at all, and whether the text has an odd    *)
(* number of hex digits.  decodeHexStr (writer) and decodeParentId (reader) both left-pad the TEXT with '0' digits  *)
(* to the full width, so the value they decode is DecodeHex(id) whatever the spelling: the mechanism below is       *)
(* spelling-free, and the binding demands the same rows / read-back for every spelling of a body.                 *)
LowBlocks == {"l1", "l2", "l3"}
Spellings == {"any", "padded", "stripped"}
RECURSIVE Significant(_)
Significant(id) == IF id = <<>> THEN <<>> ELSE IF Head(id) = "0" THEN Significant(Tail(id)) ELSE id
WrittenBlocks(id, spell) == IF spell = "stripped" THEN (IF Significant(id) = <<>> /\ id # <<>> THEN <<"0">> ELSE Significant(id)) ELSE id
OddDigits(id, spell) == /\ spell = "stripped" /\ id # <<>>
                        /\ \/ Significant(id) = <<>>                       \* the single digit "0"
                           \/ Head(WrittenBlocks(id, spell)) \in LowBlocks
(* the fields of Zipkin span n written with an odd number of digits *)
OddFields(s, spell) == {f \in {"traceId", "id", "parentId"} :
                          /\ \E k \in DOMAIN s.order : s.order[k] = f
                          /\ OddDigits(CASE f = "traceId" -> s.tid [] f = "id" -> s.sid [] f = "parentId" -> s.parent, spell)}

Present(s, key) == \E k \in DOMAIN s.order : s.order[k] = key

ZInit == [tid |-> <<>>, sid |-> <<>>, ts |-> 0, dur |-> 0, parent |-> <<>>, name |-> "", svc |-> "",
          payload |-> 0, kv |-> <<>>]
EmptyReq == [spans |-> <<>>, attrs |-> <<>>, size |-> 0]

(* stringOrInt64: a JSON number or a JSON string holding a decimal number, same value either way *)
StringOrInt64(n, kind) == CASE kind = "number" -> n [] kind = "string" -> n

(* parseEndpoint(d, prefix): only "serviceName" is looked at; it is also appended to the tag list *)
ParseEndpoint(ep, key) == [svc |-> IF ep = NoName THEN "" ELSE ep,
                           kv  |-> IF ep = NoName THEN <<>> ELSE <<Tag(<<key>>, TV("str", ep))>>]

(* decodeSpan: the body of the per-key switch *)
ZKey(zz, s, key, tsKind) ==
  CASE key = "traceId"   -> [zz EXCEPT !.tid = DecodeHex(s.tid)]
    [] key = "id"        -> [zz EXCEPT !.sid = DecodeHex(s.sid)]
    [] key = "parentId"  -> [zz EXCEPT !.parent = DecodeHex(s.parent)]
    [] key = "timestamp" -> [zz EXCEPT !.ts = StringOrInt64(s.ts, tsKind) * 1000]
    [] key = "duration"  -> [zz EXCEPT !.dur = StringOrInt64(s.dur, tsKind) * 1000]
    [] key = "name"      -> [zz EXCEPT !.name = s.name, !.kv = Append(@, Tag(<<"name">>, TV("str", s.name)))]
    [] key = "localEndpoint" ->
         LET ep == ParseEndpoint(s.local, "local_endpoint_service_name")
         IN  [zz EXCEPT !.kv = @ \o ep.kv,
                        !.svc = IF ep.svc # "" THEN ep.svc ELSE @]     \* a named local endpoint always wins
    [] key = "remoteEndpoint" ->
         LET ep == ParseEndpoint(s.remote, "remote_endpoint_service_name")
         IN  [zz EXCEPT !.kv = @ \o ep.kv,
                        !.svc = IF zz.svc = "" THEN ep.svc ELSE @]     \* `if z.serviceName == ""': the fallback
    [] key = "tags"      -> [zz EXCEPT !.kv = @ \o [k \in DOMAIN s.tags |-> Tag(<<s.tags[k].k>>, TV("str", s.tags[k].v))]]
    [] OTHER             -> zz                                           \* default: d.Skip()

(* size of what one span adds to p.spans.Size + p.attrs.Size, in units of 64 KiB (big = 0: negligible;           *)
(* 1: one value > 64 KiB, counted in the payload and in its tag row; 2: one value > 256 KiB)                    *)
Weight(big) == CASE big = 0 -> 0 [] big = 1 -> 2 [] big = 2 -> 9

(* parserDoer.onSpan; its first statement rejects (HTTP 400) a span whose ids do not have 16 / 8 bytes *)
IdsOk(tid, sid) == Len(tid) = W /\ Len(sid) = W
OnSpan(c, snt, tid, sid, ts, dur, parent, name, svc, ptype, payload, kv, weight) ==
  LET row == [tid |-> tid, sid |-> sid, parent |-> parent, name |-> name, ts |-> ts, dur |-> dur, svc |-> svc,
              ptype |-> ptype, payload |-> payload]
      trs == [k \in DOMAIN kv |-> [k |-> kv[k].k, v |-> kv[k].v, tid |-> tid, sid |-> sid, ts |-> ts, dur |-> dur]]
      c1  == [spans |-> Append(c.spans, row), attrs |-> c.attrs \o trs, size |-> c.size + weight]
  IN  IF c1.size > Limit THEN [cur |-> EmptyReq, sent |-> Append(snt, c1)]    \* p.res <- ...; p.resetSpans()
      ELSE [cur |-> c1, sent |-> snt]

----------------------------------------------------------------------------------------------------------------
(* OTLP *)
GetAttr(attrs, key) == LET I == {k \in DOMAIN attrs : attrs[k].k = key}
                       IN  IF I = {} THEN [found |-> FALSE, v |-> StrV("")]
                           ELSE [found |-> TRUE, v |-> attrs[CHOOSE k \in I : \A m \in I : k <= m].v]
SvcKeysLocal  == <<"peer.service", "service.name", "faas.name", "k8s.deployment.name", "process.executable.name">>
SvcKeysRemote == <<"service.name", "faas.name", "k8s.deployment.name", "process.executable.name">>
(* the loops of otlpGetServiceNames have no break: the LAST listed key that is present as a string wins *)
RECURSIVE LastStr(_, _, _)
LastStr(attrs, keys, acc) ==
  IF keys = <<>> THEN acc
  ELSE LET g == GetAttr(attrs, Head(keys))
       IN  LastStr(attrs, Tail(keys), IF g.found /\ g.v.t = "str" THEN g.v.a ELSE acc)
OtlpServiceNames(attrs) == LET l == LastStr(attrs, SvcKeysLocal, "")
                           IN  [local |-> IF l = "" THEN DefaultSvc ELSE l, remote |-> LastStr(attrs, SvcKeysRemote, "")]
PopulateServiceNames(attrs) ==
  LET n  == OtlpServiceNames(attrs)
      a1 == IF GetAttr(attrs, "service.name").found THEN attrs ELSE Append(attrs, KV("service.name", StrV(n.local)))
  IN  IF GetAttr(a1, "remoteService.name").found THEN a1 ELSE Append(a1, KV("remoteService.name", StrV(n.remote)))

(* writeAttrValue(key, val any, prefix, res): a type switch over the oneof WRAPPER types; it is always handed the   *)
(* oneof (kv.Value.Value for an attribute, _val.GetValue() for a list element).                                   *)
IdxStr(n) == ToString(n)
RECURSIVE WriteAttrValue(_, _, _), InitAttributesMap(_, _)
WriteAttrValue(key, v, prefix) ==
  CASE v.t = "str"    -> <<Tag(Append(prefix, key), TV("str", v.a))>>
    [] v.t = "bool"   -> <<Tag(Append(prefix, key), TV("bool", v.a))>>       \* %v
    [] v.t = "double" -> <<Tag(Append(prefix, key), TV("f6", v.a))>>         \* %f
    [] v.t = "int"    -> <<Tag(Append(prefix, key), TV("int", v.a))>>        \* %d
    [] v.t = "list"   -> Flat([k \in DOMAIN v.e |-> WriteAttrValue(IdxStr(k - 1), v.e[k], Append(prefix, key))])
    [] v.t = "map"    -> InitAttributesMap(v.kv, Append(prefix, key))
    [] OTHER          -> <<>>
InitAttributesMap(kvs, prefix) == Flat([k \in DOMAIN kvs |-> WriteAttrValue(kvs[k].k, kvs[k].v, prefix)])

(* a Go map filled in sequence: the last assignment per key survives; iteration order is irrelevant here *)
MapOf(assigns) == {assigns[k] : k \in {m \in DOMAIN assigns : \A n \in DOMAIN assigns : n > m => assigns[n].k # assigns[m].k}}
MapGet(m, path, dflt) == IF \E e \in m : e.k = path THEN (CHOOSE e \in m : e.k = path).v ELSE dflt
RECURSIVE SetToSeq(_)
SetToSeq(S) == IF S = {} THEN <<>> ELSE LET x == CHOOSE y \in S : TRUE IN <<x>> \o SetToSeq(S \ {x})

(* the spans of an OTLP body in the order of the three nested loops of Decode, each with its resource attributes *)
OSpans(b) == Flat([g \in DOMAIN b.groups |->
               Flat([sc \in DOMAIN b.groups[g].scopes |->
                   [k \in DOMAIN b.groups[g].scopes[sc] |-> [span |-> b.groups[g].scopes[sc][k], rattrs |-> b.groups[g].rattrs]]])])
NSpans(b) == IF b.proto = "zipkin" THEN Len(b.spans) ELSE Len(OSpans(b))

(* one iteration of the innermost loop of OTLPDecoder.Decode *)
OtlpSpan(c, snt, e) ==
  LET s      == e.span
      attrs  == PopulateServiceNames(s.attrs \o e.rattrs)
      m0     == MapOf(InitAttributesMap(attrs, <<>>))
      m      == MapOf(SetToSeq(m0) \o <<Tag(<<"name">>, TV("str", s.name))>>)
      stored == [s EXCEPT !.attrs = attrs]                 \* proto.Marshal(span) after the appends
      svc    == MapGet(m, <<"service.name">>, TV("str", ""))
  IN  OnSpan(c, snt, s.tid, s.sid, s.start, s.end - s.start, s.parent, s.name, svc.a, 2, stored, SetToSeq(m), Weight(s.big))

----------------------------------------------------------------------------------------------------------------
(* the state machine *)
Init == /\ body \in Bodies
        /\ pc = "start" /\ i = 0 /\ j = 0 /\ z = ZInit /\ cur = EmptyReq /\ sent = <<>>

IsZ(f) == IF body.proto = "zipkin" THEN body.framing = f ELSE FALSE
More == pc \in {"start", "next"} /\ i < NSpans(body)

(* zipkinDecoderV2.Decode: the dec.Arr callback resets every field, keeps the raw element as payload *)
ZArrElem == /\ IsZ("array") /\ More
            /\ i' = i + 1 /\ j' = 0 /\ pc' = "keys"
            /\ z' = [ZInit EXCEPT !.payload = i + 1]
            /\ UNCHANGED <<body, cur, sent>>
(* zipkinNDDecoderV2.Decode: scanner.Scan() delivers a line of any length (the scanner buffer grows with it); the  *)
(* same reset as for an array element, a copy of the line is the payload                                         *)
ZNdLine == /\ IsZ("ndjson") /\ More
           /\ i' = i + 1 /\ j' = 0 /\ pc' = "keys"
           /\ z' = [ZInit EXCEPT !.payload = i + 1]
           /\ UNCHANGED <<body, cur, sent>>
(* one member of the span object *)
ZKeyStep == /\ pc = "keys" /\ j < Len(body.spans[i].order)
            /\ j' = j + 1
            /\ z' = ZKey(z, body.spans[i], body.spans[i].order[j + 1], body.tsKind)
            /\ UNCHANGED <<body, pc, i, cur, sent>>
(* end of the object: "service.name" is appended, onSpan is called with the decoder fields *)
ZSpanEnd == /\ pc = "keys" /\ j = Len(body.spans[i].order)
            /\ LET kv == Append(z.kv, Tag(<<"service.name">>, TV("str", z.svc)))
                   r  == OnSpan(cur, sent, z.tid, z.sid, z.ts, z.dur, z.parent, z.name, z.svc, 1, z.payload, kv,
                                Weight(body.spans[i].big))
               IN  /\ z' = [z EXCEPT !.kv = kv]
                   /\ IF IdsOk(z.tid, z.sid) THEN cur' = r.cur /\ sent' = r.sent /\ pc' = "next"
                      ELSE UNCHANGED <<cur, sent>> /\ pc' = "rejected"
            /\ UNCHANGED <<body, i, j>>
OSpan == /\ body.proto = "otlp" /\ More
         /\ LET e == OSpans(body)[i + 1]
                r == OtlpSpan(cur, sent, e)
            IN  IF IdsOk(e.span.tid, e.span.sid) THEN cur' = r.cur /\ sent' = r.sent /\ pc' = "next"
                ELSE UNCHANGED <<cur, sent>> /\ pc' = "rejected"
         /\ i' = i + 1
         /\ UNCHANGED <<body, j, z>>
(* Decode returned nil: the final ParserResponse *)
Finish == /\ pc \in {"start", "next"} /\ i = NSpans(body)
          /\ sent' = Append(sent, cur) /\ cur' = EmptyReq
          /\ pc' = "done"
          /\ UNCHANGED <<body, i, j, z>>
Next == ZArrElem \/ ZNdLine \/ ZKeyStep \/ ZSpanEnd \/ OSpan \/ Finish
Spec == Init /\ [][Next]_vars

----------------------------------------------------------------------------------------------------------------
(* the store after the insert services applied every response (column mapping is the identity) *)
TraceRows == Flat([k \in DOMAIN sent |-> sent[k].spans])
TagRows   == Flat([k \in DOMAIN sent |-> sent[k].attrs])

(* ---- read path (mechanism) ---- *)
ZSpanAttrs(s) ==
  LET tags == IF Present(s, "tags") THEN [k \in DOMAIN s.tags |-> KV(s.tags[k].k, StrV(s.tags[k].v))] ELSE <<>>
      ep(key, e) == IF Present(s, key) /\ e # NoName THEN <<KV(key \o ".serviceName", StrV(e))>> ELSE <<>>
      named(key, e) == Present(s, key) /\ e # NoName /\ e # ""
      svc == IF named("localEndpoint", s.local) THEN s.local
             ELSE IF named("remoteEndpoint", s.remote) THEN s.remote ELSE ""
  IN  tags \o ep("localEndpoint", s.local) \o ep("remoteEndpoint", s.remote) \o <<KV("service.name", StrV(svc))>>
(* parseZipkinJSON: ids and times from the row, the rest from the payload; decodeParentId left-pads a hex string   *)
(* shorter than 16 digits like the writer does                                                                  *)
ParseZipkin(row) ==
  IF row.payload = 0 THEN [ok |-> FALSE]
  ELSE LET s == body.spans[row.payload]
       IN  [ok |-> TRUE, tid |-> row.tid, sid |-> row.sid,
            parent |-> IF Present(s, "parentId") /\ s.parent # <<>> THEN DecodeHex(s.parent) ELSE <<>>,
            name |-> IF Present(s, "name") THEN s.name ELSE "",
            start |-> row.ts, end |-> row.ts + row.dur, attrs |-> ZSpanAttrs(s)]
(* parseOTLP: firstLevelMap keeps the last attribute per key; "service.name" is REPLACED by the first non-empty   *)
(* string among peer.service, service.name, faas.name, ...                                                       *)
RECURSIVE FirstStr(_, _)
FirstStr(attrs, keys) ==
  IF keys = <<>> THEN ""
  ELSE LET I == {k \in DOMAIN attrs : attrs[k].k = Head(keys)}
           v == attrs[CHOOSE k \in I : \A m \in I : k >= m].v
       IN  IF I # {} /\ v.t = "str" /\ v.a # "" THEN v.a ELSE FirstStr(attrs, Tail(keys))
ParseOTLP(row) ==
  LET s   == row.payload
      f   == FirstStr(s.attrs, SvcKeysLocal)
      svc == IF f = "" THEN DefaultSvc ELSE f
      m   == MapOf(s.attrs \o <<KV("service.name", StrV(svc))>>)
  IN  [ok |-> TRUE, tid |-> s.tid, sid |-> s.sid, parent |-> s.parent, name |-> s.name, start |-> s.start,
       end |-> s.end, attrs |-> SetToSeq(m)]
ParseRow(row) == IF row.ptype = 1 THEN ParseZipkin(row) ELSE ParseOTLP(row)
(* TempoService.Query + OutputQuery: rows of the trace by timestamp; the first row that does not parse ends it *)
RECURSIVE TakeParsed(_)
TakeParsed(rows) == IF rows = <<>> THEN <<>>
                    ELSE LET p == ParseRow(Head(rows)) IN IF p.ok THEN <<p>> \o TakeParsed(Tail(rows)) ELSE <<>>
ReadTrace(tid) == TakeParsed(SortSeq(SelectSeq(TraceRows, LAMBDA r : r.tid = tid), LAMBDA a, b : a.ts < b.ts))

----------------------------------------------------------------------------------------------------------------
(* ---- DEFINITION: what the statement demands of span number n of the body, whatever the order / framing ---- *)
RECURSIVE Flatten(_, _, _)
Flatten(key, v, prefix) ==
  CASE v.t = "str"    -> {Tag(Append(prefix, key), TV("str", v.a))}
    [] v.t = "bool"   -> {Tag(Append(prefix, key), TV("bool", v.a))}
    [] v.t = "double" -> {Tag(Append(prefix, key), TV("f", v.a))}              \* any faithful decimal rendering
    [] v.t = "int"    -> {Tag(Append(prefix, key), TV("int", v.a))}
    [] v.t = "list"   -> UNION {Flatten(IdxStr(k - 1), v.e[k], Append(prefix, key)) : k \in DOMAIN v.e}
    [] v.t = "map"    -> UNION {Flatten(v.kv[k].k, v.kv[k].v, Append(prefix, key)) : k \in DOMAIN v.kv}
FlattenAll(attrs) == UNION {Flatten(attrs[k].k, attrs[k].v, <<>>) : k \in DOMAIN attrs}

ZEpName(s, key, e) == IF Present(s, key) /\ e # NoName THEN e ELSE ""
(* a Zipkin span's service is its local endpoint's; a span without a named local endpoint goes by its remote one   *)
(* (what the read path, parseZipkinJSON, reports as the span's service)                                          *)
ZSvc(s) == IF ZEpName(s, "localEndpoint", s.local) # "" THEN s.local ELSE ZEpName(s, "remoteEndpoint", s.remote)
ZDef(n) ==
  LET s == body.spans[n]
      name == IF Present(s, "name") THEN s.name ELSE ""
      parent == IF Present(s, "parentId") THEN DecodeHex(s.parent) ELSE <<>>
      attrs == IF Present(s, "tags") THEN [k \in DOMAIN s.tags |-> KV(s.tags[k].k, StrV(s.tags[k].v))] ELSE <<>>
      derived == (IF Present(s, "name") THEN {Tag(<<"name">>, TV("str", s.name))} ELSE {})
                 \cup {Tag(<<"service.name">>, TV("str", ZSvc(s)))}
                 \cup (IF Present(s, "localEndpoint") /\ s.local # NoName
                       THEN {Tag(<<"local_endpoint_service_name">>, TV("str", s.local))} ELSE {})
                 \cup (IF Present(s, "remoteEndpoint") /\ s.remote # NoName
                       THEN {Tag(<<"remote_endpoint_service_name">>, TV("str", s.remote))} ELSE {})
  IN  [tid |-> DecodeHex(s.tid), sid |-> DecodeHex(s.sid), parent |-> parent, name |-> name,
       ts |-> s.ts * 1000, dur |-> s.dur * 1000, svc |-> ZSvc(s), svcKnown |-> TRUE,
       required |-> FlattenAll(attrs), derived |-> derived, attrs |-> attrs]
ODef(n) ==
  LET e == OSpans(body)[n]
      s == e.span
      all == s.attrs \o e.rattrs                      \* the resource's attributes are attributes of each of its spans
      g == GetAttr(e.rattrs, "service.name")
      known == g.found /\ g.v.t = "str"
      svc == IF known THEN g.v.a ELSE ""
  IN  [tid |-> s.tid, sid |-> s.sid, parent |-> s.parent, name |-> s.name, ts |-> s.start, dur |-> s.end - s.start,
       svc |-> svc, svcKnown |-> known,
       required |-> FlattenAll(all),
       derived |-> {Tag(<<"name">>, TV("str", s.name))},      \* plus service.name / remoteService.name, any value
       attrs |-> all]
Def(n) == IF body.proto = "zipkin" THEN ZDef(n) ELSE ODef(n)
DerivedKeys == {<<"name">>, <<"service.name">>, <<"remoteService.name">>, <<"local_endpoint_service_name">>,
                <<"remote_endpoint_service_name">>}

(* rendering "f6" (%f) is one faithful decimal rendering of a double *)
SameVal(a, b) == \/ a = b
                 \/ a.a = b.a /\ {a.r, b.r} = {"f", "f6"}
SpanIdx == 1..NSpans(body)
RowsOf(d)    == SelectSeq(TraceRows, LAMBDA r : r.tid = d.tid /\ r.sid = d.sid)
TagRowsOf(d) == SelectSeq(TagRows, LAMBDA r : r.tid = d.tid /\ r.sid = d.sid)

(* the clauses of the statement, for span n *)
OneTraceRow(n)   == Len(RowsOf(Def(n))) = 1
TraceRowFaithful(n) ==
  LET d == Def(n) IN \A k \in DOMAIN RowsOf(d) :
      LET r == RowsOf(d)[k]
      IN  /\ r.parent = d.parent /\ r.name = d.name /\ r.ts = d.ts /\ r.dur = d.dur
          /\ d.svcKnown => r.svc = d.svc
TagRowsIdsTimes(n) == LET d == Def(n) IN \A k \in DOMAIN TagRowsOf(d) : TagRowsOf(d)[k].ts = d.ts /\ TagRowsOf(d)[k].dur = d.dur
OneTagRowPerAttr(n) ==
  LET d == Def(n) IN \A q \in d.required : Count(TagRowsOf(d), LAMBDA r : r.k = q.k /\ SameVal(r.v, q.v)) = 1
NoForeignTagRow(n) ==
  LET d == Def(n) IN \A k \in DOMAIN TagRowsOf(d) :
      LET r == TagRowsOf(d)[k]
      IN  \/ \E q \in d.required \cup d.derived : q.k = r.k /\ SameVal(r.v, q.v)
          \/ body.proto = "otlp" /\ r.k \in {<<"service.name">>, <<"remoteService.name">>}
             /\ ~ \E q \in d.required : q.k = r.k
ReadBack(n) ==
  LET d == Def(n)
      got == SelectSeq(ReadTrace(d.tid), LAMBDA p : p.sid = d.sid)
  IN  /\ Len(got) = 1
      /\ LET p == got[1]
         IN  /\ p.parent = d.parent /\ p.name = d.name /\ p.start = d.ts /\ p.end = d.ts + d.dur
             /\ \A k \in DOMAIN d.attrs : \E m \in DOMAIN p.attrs : p.attrs[m] = d.attrs[k]
AllTagRowsOwned == \A k \in DOMAIN TagRows : \E n \in SpanIdx : TagRows[k].tid = Def(n).tid /\ TagRows[k].sid = Def(n).sid
RowCount == Len(TraceRows) = NSpans(body)

ClauseNames == {"OneTraceRow", "TraceRowFaithful", "TagRowsIdsTimes", "OneTagRowPerAttr", "NoForeignTagRow", "ReadBack"}
Holds(c, n) == CASE c = "OneTraceRow" -> OneTraceRow(n)
                 [] c = "TraceRowFaithful" -> TraceRowFaithful(n)
                 [] c = "TagRowsIdsTimes" -> TagRowsIdsTimes(n)
                 [] c = "OneTagRowPerAttr" -> OneTagRowPerAttr(n)
                 [] c = "NoForeignTagRow" -> NoForeignTagRow(n)
                 [] c = "ReadBack" -> ReadBack(n)
(* the clauses the mechanism breaks for this body *)
Flags == {c \in ClauseNames : \E n \in SpanIdx : ~Holds(c, n)}
         \cup (IF RowCount THEN {} ELSE {"RowCount"}) \cup (IF AllTagRowsOwned THEN {} ELSE {"AllTagRowsOwned"})

(* ---- the property, as invariants over the final state ---- *)
DoneP(P(_)) == pc = "done" => \A n \in SpanIdx : P(n)
InvRowCount         == pc = "done" => RowCount /\ AllTagRowsOwned
InvOneTraceRow      == DoneP(OneTraceRow)
InvTraceRowFaithful == DoneP(TraceRowFaithful)
InvTagRowsIdsTimes  == DoneP(TagRowsIdsTimes)
InvOneTagRowPerAttr == DoneP(OneTagRowPerAttr)
InvNoForeignTagRow  == DoneP(NoForeignTagRow)
InvReadBack         == DoneP(ReadBack)
(* decoder hygiene: when a span object is entered the decoder carries nothing of an earlier span *)
InvCleanDecoder == (pc = "keys" /\ j = 0) => (z.kv = <<>> /\ z.parent = <<>> /\ z.name = "" /\ z.svc = "" /\ z.payload = i)

(* every body of the families is well formed: none is rejected *)
InvAccepted == pc # "rejected"
TypeOK == /\ pc \in {"start", "keys", "next", "done", "rejected"}
          /\ i \in 0..NSpans(body) /\ j \in 0..16
          /\ cur.size <= Limit
=============================================================================

SPECIFICATION Spec
CONSTANTS
  Targets = {"t1", "t2"}
  MaxLines = 4
  MaxSeries = 3
  MaxMalformed = 3
  S = 99
  MaxClock = 0
  Protos = {"bulk", "doc", "cf", "ddm"}
  Vias = {"parser", "route"}
  QPathLost = TRUE
  QPathWins = TRUE
  QDocKey = TRUE
  QLongStops = TRUE
  QCfBlank = TRUE
  QDdTags = TRUE
INVARIANTS NoGarbage ArrivalInRange
CONSTRAINT ExportCase
CHECK_DEADLOCK FALSE

SPECIFICATION Spec
CONSTANTS
  Fps = {1, 2}
  Times = {0, 1, 13, 23, 24, 25, 47}
  MaxPushes = 4
  ZoneOffset <- OffM5
  DateCarriesLocalZone = FALSE
  CacheSetBeforeInsert = FALSE
CHECK_DEADLOCK FALSE

------------------------------ MODULE ProfTree ------------------------------
(***************************************************************************)
(* C16 -- profile call trees conserve weight from ingest to flame graph.   *)
(*                                                                         *)
(* One operator per code-level rule:                                       *)
(*   writer/utils/unmarshal/golangPprof.go                                 *)
(*     getNodeId        -> NodeId / Key (hash of parent id and fn id, plus *)
(*                                      the depth CLAMPED at LevelCap in   *)
(*                                      the top bits; the hash is modelled *)
(*                                      as injective: the id IS the root-  *)
(*                                      first path, Key is what the code   *)
(*                                      computes from it)                  *)
(*     postProcessProf  -> AddSample / Walk (per-stack walk from the LAST  *)
(*                         location (root) to location 0 (leaf): total on  *)
(*                         every frame, self on the leaf)                  *)
(*   reader/prof/transpiler/planner_merge_raw.go  -> Rows (one row per     *)
(*                         stored node: parent, fn, node, self, total of   *)
(*                         the selected sample type)                       *)
(*   reader/service/profTree.go                                            *)
(*     MergeTrie        -> MergeRow / MergeRows (children kept per parent  *)
(*                         in first-seen order, equal node id under the    *)
(*                         same parent => add self/total)                  *)
(*     BFS              -> Levels  (prepend bookkeeping, level by level)   *)
(*     Total / MaxSelf  -> RTTotal / RTMaxSelf                             *)
(* and the order-free DEFINITIONS the mechanisms are checked against:      *)
(*   BuildDef (tree of a bag of samples), MergeDef (pointwise sum),        *)
(*   LayoutDef (absolute bar positions, children packed from the parent's  *)
(*   left edge).                                                           *)
(*                                                                         *)
(* DEPTH.  The code has a depth dimension of its own: getNodeId keeps the  *)
(* level of a node in 9 bits and clamps it (LevelCap, 511 in the code), so *)
(* stacks exist that stay below, reach and exceed the clamp; the walk must *)
(* go down to the leaf whatever the depth (that is where self is booked).  *)
(* MaxDepth > LevelCap makes TLC enumerate all three kinds.  Real limits   *)
(* are far beyond what TLC can enumerate frame by frame, therefore the     *)
(* spec also defines depth STRETCHING (every level l of every call path    *)
(* becomes a chain of R[l] frames: recursion, a cycle of mutually          *)
(* recursive functions, or R[l] distinct functions) and proves on the      *)
(* small cases that building, merging and laying out commute with it       *)
(* (StretchHom, StretchLayout).  The binding uses exactly that map to turn *)
(* the abstract level LevelCap into the real clamp level and its           *)
(* neighbours (510, 511, 512, ... several thousand frames).                *)
(*                                                                         *)
(* State machine: profiles are ingested one sample at a time (Ingest) into *)
(* the last profile; NewProfile opens another one.  A profile is a BAG of  *)
(* samples, so every insertion order of the same bag reaches the same      *)
(* state -- the invariant stored = BuildDef(bag) is thereby checked over   *)
(* all sample orders (TLC walks every path of the lattice).                *)
(***************************************************************************)
EXTENDS Integers, Sequences, FiniteSets, TLC

CONSTANTS
    FnSeq,        \* sequence of distinct function-name atoms (strings)
    K,            \* number of sample types
    MaxDepth,     \* longest stack
    LevelCap,     \* getNodeId: a level above it is recorded as LevelCap in the node id (511 in the code)
    StretchPlans, \* set of [r, m, flat]: stretch vectors checked by StretchHom / StretchLayout ({} = not checked)
    MinVal,       \* smallest sample value (0 or 1)
    MaxVal,       \* largest sample value
    MaxProfiles,  \* profiles per case
    MaxSamples,   \* samples per profile
    MaxTotal      \* samples per case

VARIABLES
    profs,        \* Seq of bags: sample |-> multiplicity
    stored        \* Seq of stored trees (writer mechanism, built incrementally)

vars == <<profs, stored>>

Fn    == {FnSeq[i] : i \in 1..Len(FnSeq)}
Types == 1..K
Zero  == [j \in Types |-> 0]
VAdd(a, b) == [j \in Types |-> a[j] + b[j]]

Stacks  == UNION {[1..d -> Fn] : d \in 0..MaxDepth}      \* leaf first, as pprof Sample.Location
Samples == [stack : Stacks, val : [Types -> MinVal..MaxVal]]

Reverse(s)   == [i \in 1..Len(s) |-> s[Len(s) + 1 - i]]
Prefix(s, d) == SubSeq(s, 1, d)
IsPrefix(p, q) == Len(p) <= Len(q) /\ SubSeq(q, 1, Len(p)) = p
RPath(s)     == Reverse(s.stack)                          \* root first

RECURSIVE SumF(_)
SumF(f) == IF DOMAIN f = {} THEN 0
           ELSE LET x == CHOOSE x \in DOMAIN f : TRUE
                IN  f[x] + SumF([y \in DOMAIN f \ {x} |-> f[y]])

(***************************** bags of samples *****************************)
EmptyBag == [s \in {} |-> 0]
BagAdd(b, s) == IF s \in DOMAIN b THEN [b EXCEPT ![s] = @ + 1] ELSE (s :> 1) @@ b
BagSize(b) == SumF(b)
BagUnion(a, b) == [s \in DOMAIN a \cup DOMAIN b |->
                     (IF s \in DOMAIN a THEN a[s] ELSE 0) + (IF s \in DOMAIN b THEN b[s] ELSE 0)]
RECURSIVE BagUnionAll(_)
BagUnionAll(bs) == IF bs = <<>> THEN EmptyBag ELSE BagUnion(Head(bs), BagUnionAll(Tail(bs)))
SampleSum(b)  == [j \in Types |-> SumF([s \in DOMAIN b |-> b[s] * s.val[j]])]
StackedSum(b) == [j \in Types |-> SumF([s \in {x \in DOMAIN b : x.stack # <<>>} |-> b[s] * s.val[j]])]

(************************* writer: the stored tree *************************)
\* a stored tree: node id |-> [parent, fn, self, total]; self/total are vectors over Types
RootId    == <<>>
EmptyTree == [id \in {} |-> 0]
NodeId(parentId, fn, depth) == Append(parentId, fn)     \* getNodeId, assumed injective (no hash collisions)
\* what getNodeId really computes from (parent id, fn id, depth): hash(parent id, fn id) with the clamped level on top
LevelField(depth) == IF depth > LevelCap THEN LevelCap ELSE depth      \* if traceLevel > 511 { traceLevel = 511 }
RECURSIVE Key(_)
Key(id) == IF id = <<>> THEN <<>>
           ELSE <<Key(Prefix(id, Len(id) - 1)), id[Len(id)], LevelField(Len(id))>>

RECURSIVE Walk(_, _, _, _)
Walk(t, s, i, parentId) ==                              \* i runs len(Location)-1 .. 0 in Go, Len .. 1 here
    IF i = 0 THEN t
    ELSE LET fn    == s.stack[i]
             depth == Len(s.stack) - i + 1
             id    == NodeId(parentId, fn, depth)
             old   == IF id \in DOMAIN t THEN t[id]
                      ELSE [parent |-> parentId, fn |-> fn, self |-> Zero, total |-> Zero]
             new   == [old EXCEPT !.total = VAdd(@, s.val),
                                  !.self  = IF i = 1 THEN VAdd(@, s.val) ELSE @]
         IN  Walk((id :> new) @@ t, s, i - 1, id)

AddSample(t, s) == Walk(t, s, Len(s.stack), RootId)

\* definition: what the tree of a bag of samples is
Ids(b) == UNION {{Prefix(RPath(s), d) : d \in 1..Len(s.stack)} : s \in DOMAIN b}
BuildDef(b) ==
    [id \in Ids(b) |->
        [parent |-> Prefix(id, Len(id) - 1),
         fn     |-> id[Len(id)],
         self   |-> [j \in Types |-> SumF([s \in {x \in DOMAIN b : RPath(x) = id} |-> b[s] * s.val[j]])],
         total  |-> [j \in Types |-> SumF([s \in {x \in DOMAIN b : IsPrefix(id, RPath(x))} |-> b[s] * s.val[j]])]]]

Children(t, id) == {c \in DOMAIN t : t[c].parent = id}
VSum(t, S)      == [j \in Types |-> SumF([c \in S |-> t[c].total[j]])]
Conserved(t)    == \A id \in DOMAIN t : t[id].total = VAdd(t[id].self, VSum(t, Children(t, id)))
RootTotals(t)   == VSum(t, Children(t, RootId))
WellFormed(t)   == \A id \in DOMAIN t : /\ id # RootId
                                        /\ t[id].parent = Prefix(id, Len(id) - 1)
                                        /\ t[id].parent = RootId \/ t[id].parent \in DOMAIN t

\* definition of merging stored trees: pointwise sum on equal (parent, node id)
MergeDef(a, b) ==
    [id \in DOMAIN a \cup DOMAIN b |->
        IF id \in DOMAIN a /\ id \in DOMAIN b
        THEN [a[id] EXCEPT !.self = VAdd(@, b[id].self), !.total = VAdd(@, b[id].total)]
        ELSE IF id \in DOMAIN a THEN a[id] ELSE b[id]]
RECURSIVE MergeAll(_)
MergeAll(ts) == IF ts = <<>> THEN EmptyTree ELSE MergeDef(Head(ts), MergeAll(Tail(ts)))

(******************** reader: rows, MergeTrie, BFS layout ******************)
FnIdx(f) == CHOOSE i \in 1..Len(FnSeq) : FnSeq[i] = f
RECURSIVE Rank(_)
Rank(id) == IF id = <<>> THEN 0 ELSE Rank(Prefix(id, Len(id) - 1)) * (Len(FnSeq) + 1) + FnIdx(id[Len(id)])
RECURSIVE SortIds(_)
SortIds(S) == IF S = {} THEN <<>>
              ELSE LET m == CHOOSE x \in S : \A y \in S : Rank(x) <= Rank(y)
                   IN  <<m>> \o SortIds(S \ {m})

\* the row the MergeRawPlanner SQL yields for a stored node and the selected sample type
RowOf(t, id, ty) == [parent |-> t[id].parent, fn |-> t[id].fn, id |-> id,
                     self |-> t[id].self[ty], total |-> t[id].total[ty]]
RowsAsc(t, ty)  == LET o == SortIds(DOMAIN t) IN [i \in 1..Len(o) |-> RowOf(t, o[i], ty)]           \* parents first
RowsDesc(t, ty) == Reverse(RowsAsc(t, ty))                                                        \* children first

\* reader tree: parent id |-> Seq of [id, fn, self, total] in first-seen order (Tree.Nodes)
EmptyRT == [p \in {} |-> <<>>]
FindNode(id, ch) == IF \E i \in 1..Len(ch) : ch[i].id = id
                    THEN CHOOSE i \in 1..Len(ch) : ch[i].id = id ELSE 0
MergeRow(rt, r) ==
    LET ch  == IF r.parent \in DOMAIN rt THEN rt[r.parent] ELSE <<>>
        pos == FindNode(r.id, ch)
    IN  IF pos # 0
        THEN (r.parent :> [ch EXCEPT ![pos] = [@ EXCEPT !.self = @ + r.self, !.total = @ + r.total]]) @@ rt
        ELSE (r.parent :> Append(ch, [id |-> r.id, fn |-> r.fn, self |-> r.self, total |-> r.total])) @@ rt
RECURSIVE MergeRows(_, _)
MergeRows(rt, rows) == IF rows = <<>> THEN rt ELSE MergeRows(MergeRow(rt, Head(rows)), Tail(rows))

\* order-free view of a reader tree, comparable with a stored tree projected on one type
RTIds(rt) == UNION {{rt[p][i].id : i \in 1..Len(rt[p])} : p \in DOMAIN rt}
View(rt) ==
    [id \in RTIds(rt) |->
        LET p == CHOOSE p \in DOMAIN rt : \E i \in 1..Len(rt[p]) : rt[p][i].id = id
            n == rt[p][FindNode(id, rt[p])]
        IN  [parent |-> p, fn |-> n.fn, self |-> n.self, total |-> n.total]]
Proj(t, ty) == [id \in DOMAIN t |-> [parent |-> t[id].parent, fn |-> t[id].fn,
                                     self |-> t[id].self[ty], total |-> t[id].total[ty]]]
NoDupKids(rt) == \A p \in DOMAIN rt : \A i, j \in 1..Len(rt[p]) : rt[p][i].id = rt[p][j].id => i = j

RootKids(rt) == IF RootId \in DOMAIN rt THEN rt[RootId] ELSE <<>>
RTTotal(rt)  == SumF([i \in 1..Len(RootKids(rt)) |-> RootKids(rt)[i].total])     \* Tree.Total / BFS level 0
RECURSIVE MaxF(_)
MaxF(f) == IF DOMAIN f = {} THEN 0
           ELSE LET x == CHOOSE x \in DOMAIN f : TRUE
                    m == MaxF([y \in DOMAIN f \ {x} |-> f[y]])
                IN  IF f[x] > m THEN f[x] ELSE m
RTMaxSelf(rt) == MaxF([id \in RTIds(rt) |-> View(rt)[id].self])

\* BFS: one bar = [off, total, self, fn]; off is the gap to the end of the previous bar of the same level
RECURSIVE KidsLoop(_, _, _)
KidsLoop(ch, j, acc) ==
    IF j > Len(ch) THEN acc
    ELSE LET c == ch[j]
         IN  KidsLoop(ch, j + 1,
                 [prepend |-> 0,
                  lvl     |-> Append(acc.lvl, [off |-> acc.prepend, total |-> c.total, self |-> c.self, fn |-> c.fn]),
                  next    |-> Append(acc.next, c),
                  pm      |-> (c.id :> acc.prepend) @@ acc.pm])
RECURSIVE ParentsLoop(_, _, _, _)
ParentsLoop(rt, cur, i, acc) ==
    IF i > Len(cur) THEN acc
    ELSE LET p  == cur[i]
             a1 == [acc EXCEPT !.prepend = @ + (IF p.id \in DOMAIN acc.pm THEN acc.pm[p.id] ELSE 0)]
         IN  IF p.id \notin DOMAIN rt
             THEN ParentsLoop(rt, cur, i + 1, [a1 EXCEPT !.prepend = @ + p.total])
             ELSE LET a2 == KidsLoop(rt[p.id], 1, a1)
                  IN  ParentsLoop(rt, cur, i + 1, [a2 EXCEPT !.prepend = @ + p.self])
RECURSIVE LevelsLoop(_, _, _, _)
LevelsLoop(rt, cur, pm, res) ==
    IF cur = <<>> THEN res
    ELSE LET a == ParentsLoop(rt, cur, 1, [prepend |-> 0, lvl |-> <<>>, next |-> <<>>, pm |-> pm])
         IN  LevelsLoop(rt, a.next, a.pm, Append(res, a.lvl))
RECURSIVE StripEmpty(_)
StripEmpty(ls) == IF ls # <<>> /\ ls[Len(ls)] = <<>> THEN StripEmpty(Prefix(ls, Len(ls) - 1)) ELSE ls
TotalBar(rt) == [off |-> 0, total |-> RTTotal(rt), self |-> 0, fn |-> "total"]
\* BFS result without the trailing empty level(s) the loop appends after the deepest one
Levels(rt) ==
    StripEmpty(LevelsLoop(rt, <<[id |-> RootId, fn |-> "total", self |-> 0, total |-> RTTotal(rt)]>>,
                          [p \in {} |-> 0], <<<<TotalBar(rt)>>>>))

\* definition of the layout: absolute positions, children packed from the parent's left edge in sibling order
RECURSIVE PlaceKids(_, _, _, _)
PlaceKids(ch, j, x, par) ==
    IF j > Len(ch) THEN <<>>
    ELSE <<[x |-> x, total |-> ch[j].total, self |-> ch[j].self, fn |-> ch[j].fn, id |-> ch[j].id, par |-> par]>>
         \o PlaceKids(ch, j + 1, x + ch[j].total, par)
RECURSIVE NextAbs(_, _, _)
NextAbs(rt, lvl, i) ==
    IF i > Len(lvl) THEN <<>>
    ELSE (IF lvl[i].id \in DOMAIN rt THEN PlaceKids(rt[lvl[i].id], 1, lvl[i].x, i) ELSE <<>>) \o NextAbs(rt, lvl, i + 1)
RECURSIVE AbsLoop(_, _, _)
AbsLoop(rt, lvl, res) == IF lvl = <<>> THEN res ELSE AbsLoop(rt, NextAbs(rt, lvl, 1), Append(res, lvl))
LayoutDef(rt) == AbsLoop(rt, <<[x |-> 0, total |-> RTTotal(rt), self |-> 0, fn |-> "total", id |-> RootId, par |-> 0]>>, <<>>)
Delta(lvl) == [i \in 1..Len(lvl) |->
                 [off   |-> lvl[i].x - (IF i = 1 THEN 0 ELSE lvl[i - 1].x + lvl[i - 1].total),
                  total |-> lvl[i].total, self |-> lvl[i].self, fn |-> lvl[i].fn]]
DeltaAll(ls) == [l \in 1..Len(ls) |-> Delta(ls[l])]

\* every level's bars nest inside their parent's span, do not overlap, keep the order of their parents
Nested(abs) ==
    \A l \in 1..Len(abs) : \A i \in 1..Len(abs[l]) :
        /\ abs[l][i].total >= 0
        /\ i > 1 => abs[l][i].x >= abs[l][i - 1].x + abs[l][i - 1].total
        /\ l > 1 => LET p == abs[l - 1][abs[l][i].par]
                    IN  /\ p.x <= abs[l][i].x
                        /\ abs[l][i].x + abs[l][i].total <= p.x + p.total

(************************** depth stretching *******************************)
\* A plan pl = [r |-> <<r1..rMaxDepth>>, m |-> <<m1..>>, flat |-> subset of Fn]: level l of every call path becomes a chain
\* of pl.r[l] frames; frame j of the chain for function f is the function <<f, (j-1) % pl.m[l]>> (m = 1: plain recursion
\* f f f ...; m >= r: r distinct functions; in between: a cycle of mutually recursive functions); functions in pl.flat
\* always recurse (a location without line info has one name only).
Chain(f, l, pl) == [j \in 1..pl.r[l] |-> <<f, IF f \in pl.flat THEN 0 ELSE (j - 1) % pl.m[l]>>]
RECURSIVE SPath(_, _)
SPath(p, pl) == IF p = <<>> THEN <<>>                                  \* root-first path -> stretched root-first path
                ELSE SPath(Prefix(p, Len(p) - 1), pl) \o Chain(p[Len(p)], Len(p), pl)
SSample(s, pl) == [stack |-> Reverse(SPath(Reverse(s.stack), pl)), val |-> s.val]
SBag(b, pl) == [x \in {SSample(s, pl) : s \in DOMAIN b} |-> b[CHOOSE s \in DOMAIN b : SSample(s, pl) = x]]
\* id of the j-th frame of the chain of node id
SId(id, j, pl) == SPath(Prefix(id, Len(id) - 1), pl) \o SubSeq(Chain(id[Len(id)], Len(id), pl), 1, j)
STree(t, pl) ==
    LET prs == UNION {{<<id, j>> : j \in 1..pl.r[Len(id)]} : id \in DOMAIN t}
    IN  [x \in {SId(pr[1], pr[2], pl) : pr \in prs} |->
            LET pr == CHOOSE pr \in prs : SId(pr[1], pr[2], pl) = x
            IN  [parent |-> Prefix(x, Len(x) - 1), fn |-> x[Len(x)],
                 self   |-> IF pr[2] = pl.r[Len(pr[1])] THEN t[pr[1]].self ELSE Zero,     \* self stays on the last frame
                 total  |-> t[pr[1]].total]]
\* the writer mechanism on a whole bag (any order: BuildMechEqDef holds on every path of the lattice)
RECURSIVE WalkN(_, _, _)
WalkN(t, s, n) == IF n = 0 THEN t ELSE WalkN(AddSample(t, s), s, n - 1)
RECURSIVE BuildMech(_, _)
BuildMech(b, S) == IF S = {} THEN EmptyTree
                   ELSE LET s == CHOOSE s \in S : TRUE IN WalkN(BuildMech(b, S \ {s}), s, b[s])
SelfSum(t) == [j \in Types |-> SumF([id \in DOMAIN t |-> t[id].self[j]])]
\* rows and levels of the stretched tree: every row becomes the rows of its chain (top down)
SRow(r, pl) ==
    LET l == Len(r.id) IN
    [j \in 1..pl.r[l] |-> [parent |-> IF j = 1 THEN SPath(r.parent, pl) ELSE SId(r.id, j - 1, pl),
                           fn |-> Chain(r.fn, l, pl)[j], id |-> SId(r.id, j, pl),
                           self |-> IF j = pl.r[l] THEN r.self ELSE 0, total |-> r.total]]
RECURSIVE SRows(_, _)
SRows(rows, pl) == IF rows = <<>> THEN <<>> ELSE SRow(Head(rows), pl) \o SRows(Tail(rows), pl)
\* levels: level 0 (the total bar) stays; abstract level l is drawn pl.r[l] times, self only on the last copy
RECURSIVE SLevelsFrom(_, _, _)
SLevelsFrom(ls, l, pl) ==
    IF l + 1 > Len(ls) THEN <<>>
    ELSE [j \in 1..pl.r[l] |->
            [b \in 1..Len(ls[l + 1]) |->
                [off |-> ls[l + 1][b].off, total |-> ls[l + 1][b].total,
                 self |-> IF j = pl.r[l] THEN ls[l + 1][b].self ELSE 0,
                 fn |-> Chain(ls[l + 1][b].fn, l, pl)[j]]]]
         \o SLevelsFrom(ls, l + 1, pl)
SLevels(ls, pl) == IF ls = <<>> THEN <<>> ELSE <<ls[1]>> \o SLevelsFrom(ls, 1, pl)

(************* the other merge of the stored profiles: the pprof payloads *************)
(* SelectMergeProfile merges the stored PAYLOADS (reader ProfileMergeV2.Merge after sanitizeProfile), not the tree   *)
(* rows.  A payload carries the profile's samples; the merger keeps one sample per distinct stack (sampleTable keyed *)
(* by the rewritten location ids) and adds the value vectors, profile after profile.  What a location carries        *)
(* besides its function (a mapping or none, dense or sparse mapping ids, one or several mappings, address, ids) is   *)
(* no part of a frame's identity: LocClasses names the classes the binding realises every frame in, and the merged   *)
(* weight is defined without them -- the same for every class.                                                       *)
LocClasses == {"mapped", "unmapped", "sparse_mapping_id", "second_mapping"}
EmptyPM == [st \in {} |-> Zero]
VScale(n, v) == [j \in Types |-> n * v[j]]
PMAddN(pm, s, n) == IF s.stack \in DOMAIN pm THEN [pm EXCEPT ![s.stack] = VAdd(@, VScale(n, s.val))]
                    ELSE (s.stack :> VScale(n, s.val)) @@ pm
RECURSIVE PMAddBag(_, _, _)
PMAddBag(pm, b, S) == IF S = {} THEN pm
                      ELSE LET s == CHOOSE s \in S : TRUE IN PMAddBag(PMAddN(pm, s, b[s]), b, S \ {s})
RECURSIVE PMFold(_, _, _)
PMFold(pm, bs, i) == IF i > Len(bs) THEN pm ELSE PMFold(PMAddBag(pm, bs[i], DOMAIN bs[i]), bs, i + 1)
PMergeMech(bs) == PMFold(EmptyPM, bs, 1)                                   \* the merger, profile after profile
PMergeDef(bs)  == LET sts == UNION {{s.stack : s \in DOMAIN bs[i]} : i \in 1..Len(bs)}
                  IN  [st \in sts |-> [j \in Types |->
                         SumF([i \in 1..Len(bs) |-> SumF([s \in {x \in DOMAIN bs[i] : x.stack = st} |-> bs[i][s] * s.val[j]])])]]
PMSum(pm) == [j \in Types |-> SumF([st \in DOMAIN pm |-> pm[st][j]])]
PMBag(pm) == [s \in {[stack |-> st, val |-> pm[st]] : st \in DOMAIN pm} |-> 1]   \* the merged payload read as a profile

(******************************* behaviour *********************************)
Total == SumF([i \in 1..Len(profs) |-> BagSize(profs[i])])

Init == profs = <<>> /\ stored = <<>>

NewProfile ==
    /\ Len(profs) < MaxProfiles
    /\ profs'  = Append(profs, EmptyBag)
    /\ stored' = Append(stored, EmptyTree)

Ingest(s) ==
    /\ Len(profs) > 0
    /\ BagSize(profs[Len(profs)]) < MaxSamples
    /\ Total < MaxTotal
    /\ profs'  = TLCEval([profs  EXCEPT ![Len(profs)] = BagAdd(@, s)])
    /\ stored' = TLCEval([stored EXCEPT ![Len(profs)] = AddSample(@, s)])

Next == NewProfile \/ \E s \in Samples : Ingest(s)
Spec == Init /\ [][Next]_vars

(******************************* invariants ********************************)
N == Len(profs)
Merged      == MergeAll(stored)
AllRowsAsc(ty)  == IF N = 0 THEN <<>> ELSE
                   LET RECURSIVE cat(_)
                       cat(i) == IF i > N THEN <<>> ELSE RowsAsc(stored[i], ty) \o cat(i + 1)
                   IN cat(1)
AllRowsDesc(ty) == Reverse(AllRowsAsc(ty))
RTAsc(ty)   == MergeRows(EmptyRT, AllRowsAsc(ty))
RTDesc(ty)  == MergeRows(EmptyRT, AllRowsDesc(ty))

\* mechanism = definition, for every profile, whatever the order in which its samples were walked
BuildMechEqDef == \A i \in 1..N : stored[i] = BuildDef(profs[i])
TreeWellFormed == \A i \in 1..N : WellFormed(stored[i])
\* C16 (1): total(n) = self(n) + sum of the children's totals, per sample type
Conservation   == (\A i \in 1..N : Conserved(stored[i])) /\ Conserved(Merged)
\* C16 (2): root totals add up to the profile's sample values ...
RootSumStacked == \A i \in 1..N : RootTotals(stored[i]) = StackedSum(profs[i])   \* ... of the samples that have a stack
RootSumAll     == \A i \in 1..N : RootTotals(stored[i]) = SampleSum(profs[i])    \* ... of all samples (the statement)
\* C16 (3): merging = building from the union, in any order
MergeEqBuildUnion == Merged = BuildDef(BagUnionAll(profs))
Perms(n) == {p \in [1..n -> 1..n] : \A i, j \in 1..n : p[i] = p[j] => i = j}
MergeCommAssoc ==
    /\ \A p \in Perms(N) : MergeAll([i \in 1..N |-> stored[p[i]]]) = Merged
    /\ N = 3 => MergeDef(MergeDef(stored[1], stored[2]), stored[3]) = MergeDef(stored[1], MergeDef(stored[2], stored[3]))
    /\ N >= 2 => MergeDef(stored[1], stored[2]) = MergeDef(stored[2], stored[1])
\* C16 (3b): merging the stored PAYLOADS (pprof merge) in any order of the profiles = the definition; the merged profile
\* carries the sums of the inputs, stack by stack and in total, and its call tree is the merged tree of the stored trees
PayloadMerged == PMergeDef(profs)
PayloadMergeEqDef == \A p \in Perms(N) : PMergeMech([i \in 1..N |-> profs[p[i]]]) = PayloadMerged
PayloadMergeSum   == PMSum(PayloadMerged) = [j \in Types |-> SumF([i \in 1..N |-> SampleSum(profs[i])[j]])]
PayloadMergeTree  == BuildDef(PMBag(PayloadMerged)) = Merged
\* reader mechanism = definition (two row orders here; all row orders by RowsCommute; the real code is driven through
\* arbitrary orders and validated by MC_ProfTreeObs)
ReaderMergeEqDef ==
    \A ty \in Types : /\ View(RTAsc(ty))  = Proj(Merged, ty) /\ NoDupKids(RTAsc(ty))
                      /\ View(RTDesc(ty)) = Proj(Merged, ty) /\ NoDupKids(RTDesc(ty))
\* the step of MergeTrie commutes (so every row order yields the same tree up to sibling order)
Canon(rt) == [p \in DOMAIN rt |-> {rt[p][i] : i \in 1..Len(rt[p])}]
RowsCommute ==
    \A ty \in Types : LET rows == AllRowsAsc(ty)
                          full == RTAsc(ty) IN
        \A i, j \in 1..Len(rows) : i < j =>
            /\ Canon(MergeRow(MergeRow(EmptyRT, rows[i]), rows[j])) = Canon(MergeRow(MergeRow(EmptyRT, rows[j]), rows[i]))
            /\ Canon(MergeRow(MergeRow(full, rows[i]), rows[j])) = Canon(MergeRow(MergeRow(full, rows[j]), rows[i]))
\* C16 (4): flame graph totals are the sums of the inputs, bars nest
FlameTotals ==
    \A ty \in Types : /\ RTTotal(RTAsc(ty)) = SumF([i \in 1..N |-> RootTotals(stored[i])[ty]])
                      /\ RTTotal(RTDesc(ty)) = RTTotal(RTAsc(ty))
LayoutMechEqDef ==
    \A ty \in Types : /\ Levels(RTAsc(ty))  = DeltaAll(LayoutDef(RTAsc(ty)))
                      /\ Levels(RTDesc(ty)) = DeltaAll(LayoutDef(RTDesc(ty)))
LayoutNested ==
    \A ty \in Types : Nested(LayoutDef(RTAsc(ty))) /\ Nested(LayoutDef(RTDesc(ty)))
\* DEPTH (1): the clamp of the level in the node id merges no two nodes (the parent id is hashed in), at any depth
KeyInjective == \A i \in 1..N : \A a, b \in DOMAIN stored[i] : Key(a) = Key(b) => a = b
\* DEPTH (2): all self weight is booked, whatever the depth of the stack (the walk reaches the leaf)
SelfSumStacked == \A i \in 1..N : SelfSum(stored[i]) = StackedSum(profs[i])
\* DEPTH (3): building commutes with stretching -- the tree of the stretched profile is the stretched tree, by the
\* walk and by the definition; it conserves weight, keeps the root sums and books all self weight
StretchHom ==
    \A pl \in StretchPlans : \A i \in 1..N :
        LET sb == SBag(profs[i], pl)
            st == STree(stored[i], pl)
        IN  /\ BuildDef(sb) = st
            /\ BuildMech(sb, DOMAIN sb) = st
            /\ Conserved(st)
            /\ RootTotals(st) = StackedSum(profs[i])
            /\ SelfSum(st) = StackedSum(profs[i])
            /\ \A a, b \in DOMAIN st : Key(a) = Key(b) => a = b
\* DEPTH (4): merging and laying out commute with stretching (rows of every chain fed top down / bottom up)
StretchLayout ==
    \A pl \in StretchPlans : \A ty \in Types :
        LET sasc  == MergeRows(EmptyRT, SRows(AllRowsAsc(ty), pl))
            sdesc == MergeRows(EmptyRT, Reverse(SRows(AllRowsAsc(ty), pl)))
        IN  /\ View(sasc)  = Proj(STree(Merged, pl), ty) /\ NoDupKids(sasc)
            /\ View(sdesc) = Proj(STree(Merged, pl), ty) /\ NoDupKids(sdesc)
            /\ Levels(sasc)  = SLevels(Levels(RTAsc(ty)), pl)
            /\ Levels(sdesc) = SLevels(Levels(RTDesc(ty)), pl)
            /\ RTTotal(sasc) = RTTotal(RTAsc(ty))
=============================================================================

---- MODULE MC_Batcher ----
EXTENDS Batcher
SibLogs == [s \in {"ts", "spl"} |-> IF s = "spl" THEN "ts" ELSE "none"]
SibNone == [s \in Svcs |-> "none"]
====

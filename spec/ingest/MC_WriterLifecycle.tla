---- MODULE MC_WriterLifecycle ----
(* Model-checking instances of WriterLifecycle (X03).  The .cfg files choose bounds and the quirk set. *)
EXTENDS WriterLifecycle
WdKindsLogs == <<"ts", "spl">>
WdKindsOne  == <<"spl">>
NoNodes     == {}
N1          == {"n1"}
N12         == {"n1", "n2"}
N2          == {"n2"}
\* the routing instance: services are initialised, pushes are routed and queued; the worker goroutines never start
RouteNext == (\E sv \in Svc : MMInit(sv)) \/ PushNext
RouteSpec == Init /\ [][RouteNext]_vars
====

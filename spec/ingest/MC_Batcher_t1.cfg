SPECIFICATION Spec
CONSTANTS
  Reqs = {r1, r2, r3}
  Svcs = {"spl"}
  Workers = {1, 2}
  MaxRows = 1
  MaxAttempts = 2
  MaxQueue = 1
  Sibling <- SibNone
INVARIANTS TypeOK AckImpliesInserted PromiseOkImpliesInserted ExhaustedImpliesError BatchMatchesResults PortionMatchesResults NoRowTwice PendingIsQueued
PROPERTIES PromiseOnce AtMostOneReply
CHECK_DEADLOCK FALSE

------------------------------- MODULE Labels -------------------------------
(* Series identity (C04, first half): a fingerprint is a function of the sanitised label SET -- not of the order  *)
(* of the pairs, the ingest protocol or the request (its size, the position of the series in it) -- different sets get different fingerprints, and the stored  *)
(* label document decodes to the set.  The hash itself is not modelled: the module is the trace specification      *)
(* for events recorded from the real parsers (one event per (label set, permutation, protocol)); the state keeps   *)
(* the fingerprint seen for every set and the set seen for every fingerprint.                                      *)
EXTENDS Integers, Sequences, TLC, Json, TLCExt

TraceLog == ndJsonDeserialize("trace.ndjson")

VARIABLES l, fpOf, setOf, bad
vars == <<l, fpOf, setOf, bad>>

Sets == { TraceLog[i].set : i \in 1..Len(TraceLog) }
FpsSeen == { TraceLog[i].fp : i \in 1..Len(TraceLog) }

Init == l = 1 /\ fpOf = [s \in Sets |-> ""] /\ setOf = [f \in FpsSeen |-> ""] /\ bad = "none"

\* Two kinds of events.  "Push": a series row (fingerprint + label document) emitted for the set.  "Sample": the fingerprint
\* a sample row of the series was stored under.  Both carry the shape of the request around the series (e.shape: the series
\* alone in its body, a series larger than one chunk of the decoder, a series behind / between many others): the
\* fingerprint must not depend on it, and every sample row must be stored under a fingerprint that has a series row.
Push ==
    /\ l <= Len(TraceLog)
    /\ LET e == TraceLog[l]
           row == e.ev = "Push" IN
         /\ fpOf' = IF row THEN [fpOf EXCEPT ![e.set] = e.fp] ELSE fpOf
         /\ setOf' = IF row THEN [setOf EXCEPT ![e.fp] = e.set] ELSE setOf
         /\ bad' = IF fpOf[e.set] # "" /\ fpOf[e.set] # e.fp THEN "not-a-function-of-the-set"
                   ELSE IF setOf[e.fp] # "" /\ setOf[e.fp] # e.set THEN "collision"
                   ELSE IF row /\ ~e.docok THEN "document"
                   ELSE IF ~row /\ setOf[e.fp] = "" THEN "sample-without-series-row"
                   ELSE bad
    /\ l' = l + 1

Spec == Init /\ [][Push]_vars

\* the same set always gets the same fingerprint, whatever the order and protocol
FingerprintIsFunctionOfSet == bad # "not-a-function-of-the-set"
\* different sets never share a fingerprint (checked on the enumerated universe only)
NoCollision == bad # "collision"
\* every stored label document decodes to exactly the sanitised label set
DocumentFaithful == bad # "document"
\* every sample row is stored under a fingerprint for which a series row (label document) was emitted
SampleIndexed == bad # "sample-without-series-row"

Accept == (l = Len(TraceLog) + 1) => (PrintT("TRACE-ACCEPTED") /\ TLCSet("exit", TRUE))
HW == TLCGetOrDefault(1, 0)
HighWaterPrint == (l > HW) => (PrintT(<<"HW", l>>) /\ TLCSet(1, l))
=============================================================================

SPECIFICATION Spec
CONSTANTS
  MaxStreams = 2
  Counts = {0, 1, 2, 3, 4, 7}
  Sizes = {0, 1, 3, 5}
  L = 3
  S = 4
  Kinds = {"perstream", "perentry", "prom"}
  PanicOnEmpty = FALSE
  TypesOfWholeSeries = FALSE
  LeakLabels = FALSE
  Pseudo = {FALSE}
  Mixes = {FALSE}
INVARIANTS ShapeOK NoPanic
CHECK_DEADLOCK FALSE

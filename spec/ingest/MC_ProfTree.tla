---------------------------- MODULE MC_ProfTree ----------------------------
(* Case enumeration + export for C16: every reachable state of ProfTree is a case (a sequence of profiles, each a  *)
(* bag of samples); the invariants of ProfTree are checked on it and, for the cases selected by ExportMod/ExportSeed, *)
(* the case and the spec's expected trees / merged tree / layouts are printed as JSON for the Go driver (cmd/c16).   *)
EXTENDS ProfTree, Json

CONSTANTS ExportMod, ExportSeed
MCFn2 == <<"f1", "f2">>
MCFn3 == <<"f1", "f2", "f3">>
\* stretch plans (ProfTree!StretchHom / StretchLayout): r = frames per level, m = cycle length per level, flat = always recurse
MCNoPlans == {}
MCPlans3  == {[r |-> <<2, 1, 1>>, m |-> <<1, 1, 1>>, flat |-> {}],              \* recursion at the root level
              [r |-> <<1, 3, 2>>, m |-> <<1, 3, 1>>, flat |-> {}],              \* distinct functions in the middle, recursion at the leaf
              [r |-> <<2, 2, 3>>, m |-> <<2, 2, 2>>, flat |-> {"f2"}]}          \* cycles; f2 has one name only
MCPlans5  == {[r |-> <<2, 1, 1, 1, 1>>, m |-> <<2, 1, 1, 1, 1>>, flat |-> {}],
              [r |-> <<1, 1, 2, 1, 3>>, m |-> <<1, 1, 1, 1, 2>>, flat |-> {"f1"}]}

RECURSIVE BagSeqOf(_, _)
BagSeqOf(b, S) == IF S = {} THEN <<>>
                  ELSE LET x == CHOOSE x \in S : TRUE
                       IN  <<[stack |-> x.stack, val |-> x.val, n |-> b[x]]>> \o BagSeqOf(b, S \ {x})
BagSeq(b) == BagSeqOf(b, DOMAIN b)
NodeSeq(t) == LET o == SortIds(DOMAIN t)
              IN  [i \in 1..Len(o) |-> [id |-> o[i], parent |-> t[o[i]].parent, fn |-> t[o[i]].fn,
                                        self |-> t[o[i]].self, total |-> t[o[i]].total]]
RECURSIVE RowRefs(_)
RowRefs(i) == IF i > N THEN <<>>
              ELSE LET o == SortIds(DOMAIN stored[i]) IN [k \in 1..Len(o) |-> [p |-> i, id |-> o[k]]] \o RowRefs(i + 1)
LayoutOut(rt) == [levels |-> Levels(rt), total |-> RTTotal(rt), maxself |-> RTMaxSelf(rt)]

CaseRec ==
    [k       |-> K,
     cap     |-> LevelCap,
     profs   |-> [i \in 1..N |-> BagSeq(profs[i])],
     trees   |-> [i \in 1..N |-> NodeSeq(stored[i])],
     sums    |-> [i \in 1..N |-> SampleSum(profs[i])],
     stacked |-> [i \in 1..N |-> StackedSum(profs[i])],
     roots   |-> [i \in 1..N |-> RootTotals(stored[i])],
     merged  |-> NodeSeq(Merged),
     pmerged |-> LET o == SortIds(DOMAIN PayloadMerged) IN [i \in 1..Len(o) |-> [stack |-> o[i], val |-> PayloadMerged[o[i]]]],
     rows    |-> RowRefs(1),
     asc     |-> [ty \in Types |-> LayoutOut(RTAsc(ty))],
     desc    |-> [ty \in Types |-> LayoutOut(RTDesc(ty))]]

SampleHash(s) == LET h == Rank(s.stack) * 31 + SumF([j \in Types |-> s.val[j] * (7 * j + 3)]) + 1 IN (h * h) % 1009
CaseHash == SumF([i \in 1..N |-> (IF i = 1 THEN 17 ELSE IF i = 2 THEN 19 ELSE 23 + 6 * i) * SumF([s \in DOMAIN profs[i] |-> profs[i][s] * SampleHash(s)])]) + N

Export == \/ ExportMod = 0
          \/ (CaseHash + ExportSeed) % ExportMod # 0
          \/ PrintT(<<"C16CASE", ToJson(CaseRec)>>)
=============================================================================

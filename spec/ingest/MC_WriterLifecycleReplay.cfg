SPECIFICATION ReplaySpec
CONSTANTS
  Nodes = {"n1", "n2"}
  AsyncNodes = {"n2"}
  Kinds = {"spl"}
  ParallelNum = 2
  Reqs = {"r1", "r2", "r3", "r4", "r5", "r6", "r7", "r8"}
  Dsns = {"n1", "n2", ""}
  Hdrs = {"", "0", "1"}
  ViaHTTP = FALSE
  RG = 4
  QOrphan = TRUE
  QUnknownDsn = TRUE
  QSplit = FALSE
  QDefaultSync = TRUE
  QHeaderIgnored = TRUE
  WT = 1
  MaxNow = 0
  WdKinds <- WdKindsOne
  QWdFirst = FALSE
INVARIANTS SelectionInRange
CHECK_DEADLOCK FALSE

---- MODULE MC_BulkIngest ----
EXTENDS BulkIngest, Json
\* every terminal state is exported as one case for the replay driver: the body, the definition's rows (want) and
\* the rows of the mechanism under the configured deviations (coded), with the deviations that took effect (blame)
ExportCase ==
    Terminal =>
        PrintT(<<"CASE", ToJson([proto |-> proto, via |-> via, path |-> path, rid |-> rid, body |-> body,
                                 cls |-> Want.cls, want |-> Want.rows,
                                 status |-> pc, coded |-> NoClock(Stored), chunks |-> Len(out), blame |-> blame])>>)
====

---- MODULE MC_SeriesIndex_TTrace_1791070556 ----
EXTENDS Sequences, TLCExt, Toolbox, Naturals, TLC, MC_SeriesIndex

_expression ==
    LET MC_SeriesIndex_TEExpression == INSTANCE MC_SeriesIndex_TEExpression
    IN MC_SeriesIndex_TEExpression!expression
----

_trace ==
    LET MC_SeriesIndex_TETrace == INSTANCE MC_SeriesIndex_TETrace
    IN MC_SeriesIndex_TETrace!trace
----

_inv ==
    ~(
        TLCGet("level") = Len(_TETrace)
        /\
        cache = ({<<0, 1>>})
        /\
        dbSamples = ({<<1, 0>>})
        /\
        dbSeries = ({})
        /\
        npush = (3)
        /\
        acked = ({<<1, 0>>})
        /\
        lastStatus = ("2xx")
    )
----

_init ==
    /\ lastStatus = _TETrace[1].lastStatus
    /\ dbSamples = _TETrace[1].dbSamples
    /\ dbSeries = _TETrace[1].dbSeries
    /\ cache = _TETrace[1].cache
    /\ npush = _TETrace[1].npush
    /\ acked = _TETrace[1].acked
----

_next ==
    /\ \E i,j \in DOMAIN _TETrace:
        /\ \/ /\ j = i + 1
              /\ i = TLCGet("level")
        /\ lastStatus  = _TETrace[i].lastStatus
        /\ lastStatus' = _TETrace[j].lastStatus
        /\ dbSamples  = _TETrace[i].dbSamples
        /\ dbSamples' = _TETrace[j].dbSamples
        /\ dbSeries  = _TETrace[i].dbSeries
        /\ dbSeries' = _TETrace[j].dbSeries
        /\ cache  = _TETrace[i].cache
        /\ cache' = _TETrace[j].cache
        /\ npush  = _TETrace[i].npush
        /\ npush' = _TETrace[j].npush
        /\ acked  = _TETrace[i].acked
        /\ acked' = _TETrace[j].acked

\* Uncomment the ASSUME below to write the states of the error trace
\* to the given file in Json format. Note that you can pass any tuple
\* to `JsonSerialize`. For example, a sub-sequence of _TETrace.
    \* ASSUME
    \*     LET J == INSTANCE Json
    \*         IN J!JsonSerialize("MC_SeriesIndex_TTrace_1791070556.json", _TETrace)

=============================================================================

 Note that you can extract this module `MC_SeriesIndex_TEExpression`
  to a dedicated file to reuse `expression` (the module in the 
  dedicated `MC_SeriesIndex_TEExpression.tla` file takes precedence 
  over the module `MC_SeriesIndex_TEExpression` below).

---- MODULE MC_SeriesIndex_TEExpression ----
EXTENDS Sequences, TLCExt, Toolbox, Naturals, TLC, MC_SeriesIndex

expression == 
    [
        \* To hide variables of the `MC_SeriesIndex` spec from the error trace,
        \* remove the variables below.  The trace will be written in the order
        \* of the fields of this record.
        lastStatus |-> lastStatus
        ,dbSamples |-> dbSamples
        ,dbSeries |-> dbSeries
        ,cache |-> cache
        ,npush |-> npush
        ,acked |-> acked
        
        \* Put additional constant-, state-, and action-level expressions here:
        \* ,_stateNumber |-> _TEPosition
        \* ,_lastStatusUnchanged |-> lastStatus = lastStatus'
        
        \* Format the `lastStatus` variable as Json value.
        \* ,_lastStatusJson |->
        \*     LET J == INSTANCE Json
        \*     IN J!ToJson(lastStatus)
        
        \* Lastly, you may build expressions over arbitrary sets of states by
        \* leveraging the _TETrace operator.  For example, this is how to
        \* count the number of times a spec variable changed up to the current
        \* state in the trace.
        \* ,_lastStatusModCount |->
        \*     LET F[s \in DOMAIN _TETrace] ==
        \*         IF s = 1 THEN 0
        \*         ELSE IF _TETrace[s].lastStatus # _TETrace[s-1].lastStatus
        \*             THEN 1 + F[s-1] ELSE F[s-1]
        \*     IN F[_TEPosition - 1]
    ]

=============================================================================



Parsing and semantic processing can take forever if the trace below is long.
 In this case, it is advised to uncomment the module below to deserialize the
 trace from a generated binary file.

\*
\*---- MODULE MC_SeriesIndex_TETrace ----
\*EXTENDS IOUtils, TLC, MC_SeriesIndex
\*
\*trace == IODeserialize("MC_SeriesIndex_TTrace_1791070556.bin", TRUE)
\*
\*=============================================================================
\*

---- MODULE MC_SeriesIndex_TETrace ----
EXTENDS TLC, MC_SeriesIndex

trace == 
    <<
    ([cache |-> {},dbSamples |-> {},dbSeries |-> {},npush |-> 0,acked |-> {},lastStatus |-> "none"]),
    ([cache |-> {<<0, 1>>},dbSamples |-> {},dbSeries |-> {},npush |-> 1,acked |-> {},lastStatus |-> "err"]),
    ([cache |-> {<<0, 1>>},dbSamples |-> {},dbSeries |-> {},npush |-> 2,acked |-> {},lastStatus |-> "err"]),
    ([cache |-> {<<0, 1>>},dbSamples |-> {<<1, 0>>},dbSeries |-> {},npush |-> 3,acked |-> {<<1, 0>>},lastStatus |-> "2xx"])
    >>
----


=============================================================================

---- CONFIG MC_SeriesIndex_TTrace_1791070556 ----
CONSTANTS
    Fps = { 1 , 2 }
    Times = { 0 , 1 , 13 , 23 , 24 , 25 , 47 }
    MaxPushes = 3
    WriterOffset <- OffM5
    CacheSetBeforeInsert = TRUE

INVARIANT
    _inv

CHECK_DEADLOCK
    \* CHECK_DEADLOCK off because of PROPERTY or INVARIANT above.
    FALSE

INIT
    _init

NEXT
    _next

CONSTANT
    _TETrace <- _trace

ALIAS
    _expression
=============================================================================
\* Generated on Sat Oct 03 23:35:57 UTC 2026
SPECIFICATION FairSpec
CONSTANTS
  Nodes <- N1
  AsyncNodes <- NoNodes
  Kinds = {"spl"}
  ParallelNum = 1
  Reqs = {r1}
  Dsns = {"n1"}
  Hdrs = {"0"}
  ViaHTTP = FALSE
  RG = 2
  QOrphan = TRUE
  QUnknownDsn = FALSE
  QSplit = FALSE
  QDefaultSync = FALSE
  QHeaderIgnored = FALSE
  WT = 1
  MaxNow = 0
  WdKinds <- WdKindsOne
  QWdFirst = FALSE
PROPERTIES EveryAcceptedCompletes
CHECK_DEADLOCK FALSE

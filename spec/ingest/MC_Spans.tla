------------------------------ MODULE MC_Spans ------------------------------
(* Model-checking wrapper for Spans: the families of request bodies (one family per .cfg via Bodies <- ...), and  *)
(* the export of every finished behaviour as a case (abstract body, what the statement demands per span, what the *)
(* transcribed mechanism stores and reads back, the clauses the mechanism breaks) for harness/cmd/c06.            *)
EXTENDS Spans, Json

CONSTANTS Family,                  \* which family of bodies (see FamilyBodies)
          ExportMod, ExportSeed,   \* export the cases with (CaseHash + ExportSeed) % ExportMod = 0; 0 = none
          MaxSpans,                \* bound on spans per body for the batch families
          BatchOwn, BatchName, BatchRemote,  \* batch family: sets of booleans (own trace id? name present? remote endpoint?)
          OrderPos,                \* orders family: the four mandatory keys "first" and/or "last"
          OrderKeys,               \* orders family: the optional keys whose presence and order vary
          RattrSel,                \* attrs family: which of the 4 resource attribute lists (subset of 1..4)
          GroupKinds, GroupOwn     \* groups family: span kinds (subset of 0..2), own trace id? (set of booleans)

G4 == <<"traceId", "id", "timestamp", "duration">>
Perms(S) == {f \in [1..Cardinality(S) -> S] : \A a \in S : \E k \in 1..Cardinality(S) : f[k] = a}
SeqsUpTo(S, n) == UNION {[1..m -> S] : m \in 0..n}
N2S(n) == ToString(n)

(* ---------------------------------------------- Zipkin ---------------------------------------------------- *)
ZS(tid, sid, parent, ts, dur, name, local, remote, tags, order, big) ==
  [tid |-> tid, sid |-> sid, parent |-> parent, ts |-> ts, dur |-> dur, name |-> name, local |-> local,
   remote |-> remote, tags |-> tags, order |-> order, big |-> big]
ZBodyS(framing, tsKind, spell, spans) == [proto |-> "zipkin", framing |-> framing, tsKind |-> tsKind, spell |-> spell, spans |-> spans, groups |-> <<>>]
ZBody(framing, tsKind, spans) == ZBodyS(framing, tsKind, "any", spans)
T(k, v) == [k |-> k, v |-> v]
Framings == {"array", "ndjson"}
TsKinds == {"number", "string"}
AllKeys == G4 \o <<"parentId", "name", "localEndpoint", "remoteEndpoint", "tags">>

(* ids: every class of trace id x span id x parent id, both framings, both timestamp kinds; all keys, fixed order *)
ZTids == {<<"0", "0">>, <<"0">>, <<"a">>, <<"a", "b">>, <<"f", "f">>, <<"f">>, <<"0", "a">>}
ZSids == {<<"0", "0">>, <<"c">>, <<"c", "d">>, <<"f", "f">>, <<"f">>}
ZPars == {<<>>, <<"e">>, <<"e", "g">>, <<"f", "f">>, <<"0", "e">>}
ZBodiesIds(u_) ==
  {ZBody(fr, tk, <<ZS(tid, sid, par, 10, 5, "@n1", "@L1", "-", <<T("@k1", "@v11")>>,
                     IF par = <<>> THEN G4 \o <<"name", "localEndpoint", "tags">>
                     ELSE G4 \o <<"parentId", "name", "localEndpoint", "tags">>, 0)>>) :
     fr \in Framings, tk \in TsKinds, tid \in ZTids, sid \in ZSids, par \in ZPars}

(* spellings: ids whose value has leading zero digits (low blocks: an odd number of significant digits) in every  *)
(* position of every id field, full and short, each body written "padded" (all digits) and "stripped" (no leading  *)
(* zero digits, the %x spelling: odd digit counts, 15 / 31-digit ids, "0"); a second span hangs under the first    *)
ZSpTids == {<<"a", "b">>, <<"l1", "b">>, <<"l1">>}
ZSpSids == {<<"c", "d">>, <<"l2", "d">>, <<"l2">>, <<"0", "l2">>}
ZSpPars == {<<>>, <<"e", "g">>, <<"l3", "g">>, <<"l3">>, <<"0", "l3">>, <<"0", "e">>}
ZBodiesSpell(u_) ==
  {ZBodyS(fr, "number", sp,
          <<ZS(tid, sid, par, 10, 5, "@n1", "@L1", "-", <<T("@k1", "@v11")>>,
               IF par = <<>> THEN G4 \o <<"name", "localEndpoint", "tags">>
               ELSE G4 \o <<"parentId", "name", "localEndpoint", "tags">>, 0)>>
          \o (IF child THEN <<ZS(tid, <<"c", "s2">>, sid, 20, 2, "@n2", "@L1", "-", <<T("@k1", "@v21")>>,
                                  G4 \o <<"parentId", "name", "localEndpoint", "tags">>, 0)>> ELSE <<>>)) :
     fr \in Framings, sp \in {"padded", "stripped"}, tid \in ZSpTids, sid \in ZSpSids, par \in ZSpPars, child \in BOOLEAN}

(* orders: one span, every subset of the optional keys, every endpoint shape, EVERY order of the optional keys,   *)
(* the four mandatory keys before or after them                                                                 *)
Optional == {"parentId", "name", "localEndpoint", "remoteEndpoint", "tags"}
ZOrderSpans(u_) ==
  UNION {UNION {{ZS(<<"a", "b">>, <<"c", "d">>, <<"e", "g">>, 10, 5, "@n1", loc, rem, <<T("@k1", "@v11"), T("@k2", "@v12")>>, ord, 0) :
                   ord \in (IF "first" \in OrderPos THEN {G4 \o p : p \in Perms(ks)} ELSE {})
                                \cup (IF "last" \in OrderPos THEN {p \o G4 : p \in Perms(ks)} ELSE {})} :
                loc \in (IF "localEndpoint" \in ks THEN {"@L1", NoName} ELSE {"-"}),
                rem \in (IF "remoteEndpoint" \in ks THEN {"@R1", NoName} ELSE {"-"})} :
         ks \in SUBSET (Optional \cap OrderKeys)}
ZBodiesOrders(u_) == {ZBody(fr, "number", <<s>>) : fr \in Framings, s \in ZOrderSpans(0)}

(* batches: up to MaxSpans spans per body; per span: same or own trace, parent / name / local endpoint / remote   *)
(* endpoint / tags present or not; canonical key order with the local endpoint before or after the remote one     *)
ZBatchSpan(n, ownTrace, par, name, loc, rem, tags, locFirst) ==
  LET ks == (IF par THEN <<"parentId">> ELSE <<>>) \o (IF name THEN <<"name">> ELSE <<>>)
            \o (IF locFirst THEN (IF loc THEN <<"localEndpoint">> ELSE <<>>) \o (IF rem THEN <<"remoteEndpoint">> ELSE <<>>)
                ELSE (IF rem THEN <<"remoteEndpoint">> ELSE <<>>) \o (IF loc THEN <<"localEndpoint">> ELSE <<>>))
            \o (IF tags THEN <<"tags">> ELSE <<>>)
  IN  ZS(IF ownTrace THEN <<"a", "t" \o N2S(n)>> ELSE <<"a", "b">>, <<"c", "s" \o N2S(n)>>,
         IF par THEN <<"e", "p" \o N2S(n)>> ELSE <<>>, 10 * n, n,
         IF name THEN "@n" \o N2S(n) ELSE "", IF loc THEN "@L" \o N2S(n) ELSE "-", IF rem THEN "@R" \o N2S(n) ELSE "-",
         IF tags THEN <<T("@k1", "@v" \o N2S(n) \o "1")>> ELSE <<>>, G4 \o ks, 0)
ZBatchChoices(n) == {ZBatchSpan(n, o, p, nm, l, r, t, lf) : o \in IF n = 1 THEN {FALSE} ELSE BatchOwn,
                                                           p \in BOOLEAN, nm \in BatchName, l \in BOOLEAN, r \in BatchRemote,
                                                           t \in BOOLEAN, lf \in {TRUE}}
Prod(C(_), m) == CASE m = 1 -> {<<a>> : a \in C(1)}
                   [] m = 2 -> {<<a, b>> : a \in C(1), b \in C(2)}
                   [] m = 3 -> {<<a, b, c>> : a \in C(1), b \in C(2), c \in C(3)}
ZBatches(u_) == UNION {Prod(ZBatchChoices, m) : m \in 1..MaxSpans}
ZBodiesBatch(u_) == {ZBody(fr, "number", ss) : fr \in Framings, ss \in ZBatches(0)}

(* big: spans carrying one very long tag value (> 64 KiB: longer than a bufio.Scanner token; > 256 KiB: a few of   *)
(* them cross the 1 MiB flush threshold of the parser)                                                           *)
ZBigSpan(n, big) == ZS(<<"a", "b">>, <<"c", "s" \o N2S(n)>>, <<>>, 10 * n, n, "@n" \o N2S(n), "@L1", "-",
                       IF big = 0 THEN <<T("@k1", "@v" \o N2S(n) \o "1")>> ELSE <<T("@k1", "@v" \o N2S(n) \o "1"), T("@kb", "@B" \o N2S(big))>>,
                       G4 \o <<"name", "localEndpoint", "tags">>, big)
ZBigChoices(n) == {ZBigSpan(n, b) : b \in 0..2}
ZBigs(u_) == UNION {Prod(ZBigChoices, m) : m \in 1..MaxSpans}
ZBodiesBig(u_) == {ZBody(fr, "string", ss) : fr \in Framings, ss \in {x \in ZBigs(0) : \E n \in DOMAIN x : x[n].big > 0}}

(* ----------------------------------------------- OTLP ----------------------------------------------------- *)
OS(tid, sid, parent, start, end, name, attrs, big) ==
  [tid |-> tid, sid |-> sid, parent |-> parent, start |-> start, end |-> end, name |-> name, attrs |-> attrs, big |-> big]
OBody(groups) == [proto |-> "otlp", framing |-> "pb", tsKind |-> "number", spell |-> "any", spans |-> <<>>, groups |-> groups]
Grp(rattrs, scopes) == [rattrs |-> rattrs, scopes |-> scopes]
Sc(t, a) == AV(t, a, <<>>, <<>>)
List(e) == AV("list", "", e, <<>>)
Map(kv) == AV("map", "", <<>>, kv)
aS  == KV("@k1", Sc("str", "@s1"))
aI  == KV("@k2", Sc("int", "@i1"))
aD  == KV("@k3", Sc("double", "@d1"))
aB  == KV("@k4", Sc("bool", "@b1"))
aL  == KV("@k5", List(<<Sc("str", "@s2"), Sc("int", "@i2")>>))
aM  == KV("@k6", Map(<<KV("@x", Sc("str", "@s3")), KV("@y", Sc("double", "@d2"))>>))
aN1 == KV("@k7", List(<<Map(<<KV("@x", List(<<Sc("str", "@s4")>>))>>)>>))            \* list of map of list
aN2 == KV("@k8", Map(<<KV("@y", List(<<Sc("bool", "@b2"), Sc("str", "@s5")>>)), KV("@x", Map(<<KV("@y", Sc("int", "@i3"))>>))>>))
aE  == KV("@k9", List(<<>>))
aP  == KV("peer.service", Sc("str", "@p1"))
rSvc  == KV("service.name", Sc("str", "@S1"))
rSvc2 == KV("service.name", Sc("str", "@S2"))
rHost == KV("@h", Sc("str", "@s6"))
rNum  == KV("@r", Sc("int", "@i4"))
Catalog == {aS, aI, aD, aB, aL, aM, aN1, aN2, aE, aP}

RattrLists == <<<<>>, <<rSvc, rHost, rNum>>, <<rSvc>>, <<rHost>>>>
(* attrs: one span, every subset of the catalog of attribute kinds, with / without resource attributes *)
OBodiesAttrs(u_) == {OBody(<<Grp(ra, <<<<OS(<<"a", "b">>, <<"c", "d">>, <<>>, 10, 15, "@n1", SetToSeq(as), 0)>>>>)>>) :
                   as \in SUBSET Catalog, ra \in {RattrLists[k] : k \in RattrSel}}
(* ids: every class of id, zero / positive duration *)
OTids == {<<"0", "0">>, <<"a", "b">>, <<"f", "f">>, <<"0", "a">>, <<"a", "0">>}
OSids == {<<"0", "0">>, <<"c", "d">>, <<"f", "f">>}
OPars == {<<>>, <<"e", "g">>, <<"f", "f">>, <<"0", "0">>}
OBodiesIds(u_) == {OBody(<<Grp(<<rSvc>>, <<<<OS(tid, sid, par, 10, 10 + d, "@n1", <<aS>>, 0)>>>>)>>) :
                 tid \in OTids, sid \in OSids, par \in OPars, d \in {0, 5}}
(* groups: up to 2 resource groups x up to 2 scopes each (empty ones included), up to MaxSpans spans in all *)
ScopeShapes == 0..MaxSpans
GroupShapes(u_) == SeqsUpTo(ScopeShapes, 2)
RECURSIVE SumSeq(_)
SumSeq(s) == IF s = <<>> THEN 0 ELSE Head(s) + SumSeq(Tail(s))
GTotal(gs) == SumSeq([g \in DOMAIN gs |-> SumSeq(gs[g])])
BodyShapes(u_) == {gs \in SeqsUpTo(GroupShapes(0), 2) : Len(gs) >= 1 /\ GTotal(gs) \in 1..MaxSpans}
Offset(gs, g, sc) == SumSeq([h \in 1..(g - 1) |-> SumSeq(gs[h])]) + SumSeq([t \in 1..(sc - 1) |-> gs[g][t]])
OGSpan(n, own, kind) == OS(IF own THEN <<"a", "t" \o N2S(n)>> ELSE <<"a", "b">>, <<"c", "s" \o N2S(n)>>,
                           IF n = 1 THEN <<>> ELSE <<"c", "s1">>, 10 * n, 11 * n, "@n" \o N2S(n),
                           CASE kind = 0 -> <<>> [] kind = 1 -> <<KV("@k1", Sc("str", "@s" \o N2S(n)))>> [] kind = 2 -> <<aP, aL>>, 0)
(* explicit tuples (function constructors stay lazy inside TLC and make comparing bodies very slow) *)
Mk(n, F(_)) == CASE n = 0 -> <<>> [] n = 1 -> <<F(1)>> [] n = 2 -> <<F(1), F(2)>> [] n = 3 -> <<F(1), F(2), F(3)>>
OGBodies(gs) ==
  LET n == GTotal(gs)
  IN  {LET scope(g, sc) == LET sp(k) == OGSpan(Offset(gs, g, sc) + k, own[Offset(gs, g, sc) + k], kinds[Offset(gs, g, sc) + k])
                           IN  Mk(gs[g][sc], sp)
           group(g) == LET scg(sc) == scope(g, sc) IN Grp(ra[g], Mk(Len(gs[g]), scg))
       IN  OBody(Mk(Len(gs), group)) :
         kinds \in [1..n -> GroupKinds], own \in [1..n -> GroupOwn],
         ra \in {f \in [DOMAIN gs -> {<<>>, <<rSvc, rHost>>, <<rSvc2>>}] : f[1] # <<rSvc2>> /\ (Len(gs) = 2 => f[2] # <<rSvc, rHost>>)}}
OBodiesGroups(u_) == UNION {OGBodies(gs) : gs \in BodyShapes(0)}
(* big: a few spans with a very long attribute value; two of the largest cross the 1 MiB flush threshold *)
OBigSpan(n, big) == OS(<<"a", "b">>, <<"c", "s" \o N2S(n)>>, <<>>, 10 * n, 11 * n, "@n" \o N2S(n),
                       IF big = 0 THEN <<aS>> ELSE <<aS, KV("@kb", Sc("str", "@B" \o N2S(big)))>>, big)
OBigChoices(n) == {OBigSpan(n, b) : b \in 0..2}
OBigs(u_) == UNION {Prod(OBigChoices, m) : m \in 1..MaxSpans}
OBodiesBig(u_) == {OBody(<<Grp(<<rSvc>>, <<ss>>)>>) : ss \in {x \in OBigs(0) : \E n \in DOMAIN x : x[n].big > 0}}

(* TLC evaluates every parameterless constant definition at start-up: the families take a dummy argument so that  *)
(* only the selected one is ever built                                                                           *)
FamilyBodies == TLCEval(CASE Family = "zids"    -> ZBodiesIds(0)
                  [] Family = "zspell"  -> ZBodiesSpell(0)
                  [] Family = "zorders" -> ZBodiesOrders(0)
                  [] Family = "zbatch"  -> ZBodiesBatch(0)
                  [] Family = "zbig"    -> ZBodiesBig(0)
                  [] Family = "oattrs"  -> OBodiesAttrs(0)
                  [] Family = "oids"    -> OBodiesIds(0)
                  [] Family = "ogroups" -> OBodiesGroups(0)
                  [] Family = "obig"    -> OBodiesBig(0))

(* ------------------------------------------ candidate classes ---------------------------------------------- *)
(* The classes of bodies for which the transcribed mechanism breaks some clause of the statement.  TLC verifies     *)
(* (InvOutsideClasses) that OUTSIDE these classes the mechanism satisfies every clause; INSIDE, the broken clauses   *)
(* are exported with the case (flags) and the binding decides on the real code.                                    *)
ZClasses(b) == {}          \* none: the Zipkin mechanism satisfies every clause for every body
OClasses(b) ==
  (IF \E n \in DOMAIN OSpans(b) : LET e == OSpans(b)[n] IN
             GetAttr(e.span.attrs, "peer.service").found /\ GetAttr(e.rattrs, "service.name").found
         THEN {"otlp-peer.service-and-service.name"} ELSE {})
Classes(b) == IF b.proto = "zipkin" THEN ZClasses(b) ELSE OClasses(b)
InvOutsideClasses == (pc = "done" /\ Classes(body) = {}) => Flags = {}
InvCleanDecoderArray == body.proto = "zipkin" => InvCleanDecoder      \* both framings

(* ----------------------------------------------- export --------------------------------------------------- *)
DefOut(n) == LET d == Def(n) IN [tid |-> d.tid, sid |-> d.sid, parent |-> d.parent, name |-> d.name, ts |-> d.ts, dur |-> d.dur,
                                 svc |-> d.svc, svcKnown |-> d.svcKnown, required |-> d.required, derived |-> d.derived,
                                 attrs |-> d.attrs]
RowOut(r) == [tid |-> r.tid, sid |-> r.sid, parent |-> r.parent, name |-> r.name, ts |-> r.ts, dur |-> r.dur, svc |-> r.svc,
              ptype |-> r.ptype, payload |-> IF r.ptype = 1 THEN r.payload ELSE 1]
Tids == {Def(n).tid : n \in SpanIdx}
CaseRec == [body |-> body, n |-> NSpans(body),
            def |-> [n \in SpanIdx |-> DefOut(n)],
            mech |-> [rows |-> [k \in DOMAIN TraceRows |-> RowOut(TraceRows[k])], tags |-> TagRows,
                      read |-> SetToSeq({[tid |-> t, spans |-> ReadTrace(t)] : t \in Tids}),
                      responses |-> Len(sent)],
            odd |-> [n \in DOMAIN body.spans |-> OddFields(body.spans[n], body.spell)],
            flags |-> Flags, classes |-> Classes(body)]
SeqHash(s) == SumSeq([k \in DOMAIN s |-> (k * 7 + 3) * (Len(s[k]) + 1)])
CaseHash == IF body.proto = "zipkin"
            THEN SumSeq([n \in DOMAIN body.spans |-> (n * 31 + 5) * (SeqHash(body.spans[n].order) + Len(body.spans[n].tid) * 3
                          + Len(body.spans[n].sid) * 5 + Len(body.spans[n].parent) * 11 + Len(body.spans[n].tags) + body.spans[n].big)])
                 + (IF body.framing = "array" THEN 1 ELSE 0)
            ELSE SumSeq([n \in DOMAIN OSpans(body) |-> (n * 31 + 5) * (Len(OSpans(body)[n].span.attrs) * 3 + Len(OSpans(body)[n].rattrs))])
                 + Len(body.groups)
Export == \/ pc # "done"
          \/ ExportMod = 0
          \/ (CaseHash + ExportSeed) % ExportMod # 0
          \/ PrintT(<<"C06CASE", ToJson(CaseRec)>>)
=============================================================================

------------------------------- MODULE Batcher -------------------------------
(***************************************************************************)
(* The ingest batching path of qryn's writer, one action per critical      *)
(* section of the code:                                                    *)
(*                                                                         *)
(*   writer/controller/builder.go      doParse / doPush (handler, retry)   *)
(*   writer/service/genericInsertService.go                                *)
(*        Request            -> Request(p, wk)      (under svc.mtx)        *)
(*        insertCtx timeout  -> TimerFire(wk)                              *)
(*        PlanFlush          -> flush set by BeforeInsert of the sibling   *)
(*        fetchLoopIteration -> ConnFail / IterSwap / BeforeInsert /       *)
(*                              DoReturn                                   *)
(*        ping               -> PingFail                                   *)
(*   writer/utils/promise     Done is CAS-guarded -> Resolve keeps the     *)
(*                             first outcome                               *)
(*                                                                         *)
(* A "push" p = <<r, s>> is the doPush goroutine of request r for insert   *)
(* service (table) s.  A promise is <<p, attempt>>.  A row is <<p, i>>.    *)
(* Sizes are abstracted to row counts (environment assumption checked on   *)
(* every recorded Append event: rows > 0 => byte size > 0).                *)
(*                                                                         *)
(* Reduction: (re)connecting and swapBuffers are one step (IterSwap): the  *)
(* connect touches only the worker-local client field, so it commutes with *)
(* every other action (both-mover).                                        *)
(***************************************************************************)
EXTENDS Integers, Sequences, FiniteSets, TLC

CONSTANTS
    Reqs,          \* set of push requests
    Svcs,          \* insert services reached by one request, e.g. {"ts", "spl"}
    Workers,       \* worker ids of each service (ParallelNum)
    MaxRows,       \* a push carries 0..MaxRows rows
    MaxAttempts,   \* retry attempts of doPush (>= 1)
    MaxQueue,      \* 0 = no size trigger, else flush when size > MaxQueue
    Sibling        \* [Svcs -> Svcs \cup {"none"}]: service flushed by OnBeforeInsert of s

Push   == Reqs \X Svcs
WK     == Svcs \X Workers
Att    == 1..MaxAttempts
NoPortion == [res |-> <<>>, rows |-> <<>>]

VARIABLES
    hst,        \* [Reqs -> {"new","parsed","replied"}]   handler
    status,     \* [Reqs -> {"none","2xx","err","perr"}]  HTTP status class ("perr" = parse error)
    nrows,      \* [Push -> 0..MaxRows]  rows of each push, chosen by the request body
    pst,        \* [Push -> {"idle","ready","waiting","ok","err"}] doPush goroutine
    att,        \* [Push -> Att] current attempt
    prom,       \* [Push -> [Att -> {"none","pending","ok","err"}]]
    results,    \* [WK -> Seq(Push \X Att)]  promises of the open batch
    batch,      \* [WK -> Seq(rows)]         rows of the open batch (every column)
    size,       \* [WK -> Nat]
    flush,      \* [WK -> BOOLEAN]           insertCtx is done
    client,     \* [WK -> BOOLEAN]           connection present
    wpc,        \* [WK -> {"idle","swapped","doing"}]
    portion,    \* [WK -> [res: Seq, rows: Seq]] swapped-out batch being inserted
    inserted    \* set of rows contained in an INSERT that returned without error

vars == <<hst, status, nrows, pst, att, prom, results, batch, size, flush, client, wpc, portion, inserted>>
hvars == <<hst, status>>
pvars == <<pst, att>>
wvars == <<results, batch, size, flush, client, wpc, portion>>

RowsOf(p)   == { <<p, i>> : i \in 1..nrows[p] }
RowSeq(p)   == [ i \in 1..nrows[p] |-> <<p, i>> ]
PushesOf(r) == { <<r, s>> : s \in Svcs }
Range(f)    == { f[i] : i \in DOMAIN f }

RECURSIVE FlatRows(_)
FlatRows(ps) == IF ps = <<>> THEN <<>> ELSE RowSeq(Head(ps)[1]) \o FlatRows(Tail(ps))

TypeOK ==
    /\ hst \in [Reqs -> {"new", "parsed", "replied"}]
    /\ status \in [Reqs -> {"none", "2xx", "err", "perr"}]
    /\ nrows \in [Push -> 0..MaxRows]
    /\ pst \in [Push -> {"idle", "ready", "waiting", "ok", "err"}]
    /\ att \in [Push -> Att]
    /\ prom \in [Push -> [Att -> {"none", "pending", "ok", "err"}]]
    /\ flush \in [WK -> BOOLEAN]
    /\ client \in [WK -> BOOLEAN]
    /\ wpc \in [WK -> {"idle", "swapped", "doing"}]
    /\ \A wk \in WK : size[wk] \in Nat

Init ==
    /\ hst = [r \in Reqs |-> "new"]
    /\ status = [r \in Reqs |-> "none"]
    /\ nrows = [p \in Push |-> 0]
    /\ pst = [p \in Push |-> "idle"]
    /\ att = [p \in Push |-> 1]
    /\ prom = [p \in Push |-> [a \in Att |-> "none"]]
    /\ results = [wk \in WK |-> <<>>]
    /\ batch = [wk \in WK |-> <<>>]
    /\ size = [wk \in WK |-> 0]
    /\ flush = [wk \in WK |-> FALSE]
    /\ client = [wk \in WK |-> FALSE]
    /\ wpc = [wk \in WK |-> "idle"]
    /\ portion = [wk \in WK |-> NoPortion]
    /\ inserted = {}

-----------------------------------------------------------------------------
(* Handler: doParse *)

\* The parser produced one chunk: a doPush goroutine is started for every service.
Parse(r, n) ==
    /\ hst[r] = "new"
    /\ n \in [Svcs -> 0..MaxRows]
    /\ hst' = [hst EXCEPT ![r] = "parsed"]
    /\ nrows' = TLCEval([p \in Push |-> IF p[1] = r THEN n[p[2]] ELSE nrows[p]])
    /\ pst' = TLCEval([p \in Push |-> IF p[1] = r THEN "ready" ELSE pst[p]])
    /\ UNCHANGED <<status, att, prom, wvars, inserted>>

\* The parser reported an error before any chunk: error status, nothing submitted.
ParseError(r) ==
    /\ hst[r] = "new"
    /\ hst' = [hst EXCEPT ![r] = "replied"]
    /\ status' = [status EXCEPT ![r] = "perr"]
    /\ UNCHANGED <<nrows, pvars, prom, wvars, inserted>>

\* doParse waits for the promises in order and returns the first error.
ReplyOK(r) ==
    /\ hst[r] = "parsed"
    /\ \A p \in PushesOf(r) : pst[p] = "ok"
    /\ hst' = [hst EXCEPT ![r] = "replied"]
    /\ status' = [status EXCEPT ![r] = "2xx"]
    /\ UNCHANGED <<nrows, pvars, prom, wvars, inserted>>

ReplyErr(r) ==
    /\ hst[r] = "parsed"
    /\ \E p \in PushesOf(r) : pst[p] = "err"
    /\ hst' = [hst EXCEPT ![r] = "replied"]
    /\ status' = [status EXCEPT ![r] = "err"]
    /\ UNCHANGED <<nrows, pvars, prom, wvars, inserted>>

-----------------------------------------------------------------------------
(* doPush goroutine and InsertServiceV2.Request *)

Request(p, wk) ==
    /\ pst[p] = "ready"
    /\ wk[1] = p[2]
    /\ pst' = [pst EXCEPT ![p] = "waiting"]
    /\ IF nrows[p] = 0
         THEN \* inserted == 0: the promise is completed at once, nothing is queued
              /\ prom' = [prom EXCEPT ![p][att[p]] = "ok"]
              /\ UNCHANGED <<results, batch, size, flush>>
         ELSE /\ prom' = [prom EXCEPT ![p][att[p]] = "pending"]
              /\ results' = [results EXCEPT ![wk] = Append(@, <<p, att[p]>>)]
              /\ batch' = [batch EXCEPT ![wk] = @ \o RowSeq(p)]
              /\ size' = [size EXCEPT ![wk] = @ + nrows[p]]
              /\ flush' = [flush EXCEPT ![wk] =
                              @ \/ (MaxQueue > 0 /\ size[wk] + nrows[p] > MaxQueue)]
    /\ UNCHANGED <<hvars, nrows, att, client, wpc, portion, inserted>>

\* retry.Do looks at the outcome of the attempt
Observe(p) ==
    /\ pst[p] = "waiting"
    /\ prom[p][att[p]] \in {"ok", "err"}
    /\ IF prom[p][att[p]] = "ok"
         THEN pst' = [pst EXCEPT ![p] = "ok"] /\ UNCHANGED att
         ELSE IF att[p] < MaxAttempts
                THEN pst' = [pst EXCEPT ![p] = "ready"] /\ att' = [att EXCEPT ![p] = @ + 1]
                ELSE pst' = [pst EXCEPT ![p] = "err"] /\ UNCHANGED att
    /\ UNCHANGED <<hvars, nrows, prom, wvars, inserted>>

-----------------------------------------------------------------------------
(* Insert worker: InsertServiceV2.Run / fetchLoopIteration *)

TimerFire(wk) ==
    /\ ~flush[wk]
    /\ flush' = [flush EXCEPT ![wk] = TRUE]
    /\ UNCHANGED <<hvars, nrows, pvars, prom, results, batch, size, client, wpc, portion, inserted>>

\* V3Session() failed: sleep 1s and return; insertCtx stays done.
ConnFail(wk) ==
    /\ wpc[wk] = "idle" /\ flush[wk] /\ ~client[wk]
    /\ UNCHANGED vars

\* (connect if needed) + swapBuffers
IterSwap(wk) ==
    /\ wpc[wk] = "idle" /\ flush[wk]
    /\ client' = [client EXCEPT ![wk] = TRUE]
    /\ flush' = [flush EXCEPT ![wk] = FALSE]
    /\ IF size[wk] = 0
         THEN UNCHANGED <<results, batch, size, wpc, portion>>
         ELSE /\ portion' = [portion EXCEPT ![wk] = [res |-> results[wk], rows |-> batch[wk]]]
              /\ results' = [results EXCEPT ![wk] = <<>>]
              /\ batch' = [batch EXCEPT ![wk] = <<>>]
              /\ size' = [size EXCEPT ![wk] = 0]
              /\ wpc' = [wpc EXCEPT ![wk] = "swapped"]
    /\ UNCHANGED <<hvars, nrows, pvars, prom, inserted>>

\* OnBeforeInsert: PlanFlush of every worker of the sibling service
BeforeInsert(wk) ==
    /\ wpc[wk] = "swapped"
    /\ wpc' = [wpc EXCEPT ![wk] = "doing"]
    /\ flush' = TLCEval([k \in WK |-> flush[k] \/ (k[1] = Sibling[wk[1]])])
    /\ UNCHANGED <<hvars, nrows, pvars, prom, results, batch, size, client, portion, inserted>>

\* (TLCEval forces TLC to evaluate the function eagerly; without it simulation mode builds an
\* ever deeper chain of lazy function values)
Resolve(pr, ps, out) ==
    TLCEval([p \in Push |-> [a \in Att |->
        IF <<p, a>> \in ps /\ pr[p][a] = "pending" THEN out ELSE pr[p][a]]])

\* client.Do returned; releaseWaiting(err); on error the client is dropped
DoReturn(wk, ok) ==
    /\ wpc[wk] = "doing"
    /\ inserted' = IF ok THEN inserted \cup Range(portion[wk].rows) ELSE inserted
    /\ prom' = Resolve(prom, Range(portion[wk].res), IF ok THEN "ok" ELSE "err")
    /\ client' = [client EXCEPT ![wk] = ok]
    /\ wpc' = [wpc EXCEPT ![wk] = "idle"]
    /\ portion' = [portion EXCEPT ![wk] = NoPortion]
    /\ UNCHANGED <<hvars, nrows, pvars, results, batch, size, flush>>

\* watchdog ping failed between iterations: the client is dropped
PingFail(wk) ==
    /\ wpc[wk] = "idle" /\ client[wk]
    /\ client' = [client EXCEPT ![wk] = FALSE]
    /\ UNCHANGED <<hvars, nrows, pvars, prom, results, batch, size, flush, wpc, portion, inserted>>

-----------------------------------------------------------------------------
Next ==
    \/ \E r \in Reqs : \E n \in [Svcs -> 0..MaxRows] : Parse(r, n)
    \/ \E r \in Reqs : ParseError(r) \/ ReplyOK(r) \/ ReplyErr(r)
    \/ \E p \in Push : Observe(p) \/ \E wk \in WK : Request(p, wk)
    \/ \E wk \in WK : \/ TimerFire(wk) \/ ConnFail(wk) \/ IterSwap(wk) \/ BeforeInsert(wk)
                      \/ PingFail(wk) \/ \E ok \in BOOLEAN : DoReturn(wk, ok)

Spec == Init /\ [][Next]_vars

\* Fairness: handler, doPush and worker steps are taken when enabled; timers fire; the database
\* answers every Do (either way) and accepts a connection eventually (IterSwap).
Fairness ==
    /\ \A r \in Reqs : WF_vars(ReplyOK(r)) /\ WF_vars(ReplyErr(r))
    /\ \A r \in Reqs : WF_vars(ParseError(r) \/ \E n \in [Svcs -> 0..MaxRows] : Parse(r, n))
    /\ \A p \in Push : WF_vars(Observe(p)) /\ WF_vars(\E wk \in WK : Request(p, wk))
    /\ \A wk \in WK : /\ WF_vars(TimerFire(wk)) /\ WF_vars(IterSwap(wk)) /\ WF_vars(BeforeInsert(wk))
                      /\ WF_vars(\E ok \in BOOLEAN : DoReturn(wk, ok))
FairSpec == Spec /\ Fairness

-----------------------------------------------------------------------------
(* Properties (C01) *)

\* a success status only after every row was part of a successful INSERT
AckImpliesInserted ==
    \A r \in Reqs : status[r] = "2xx" => \A p \in PushesOf(r) : RowsOf(p) \subseteq inserted

\* the same at promise grain
PromiseOkImpliesInserted ==
    \A p \in Push : \A a \in Att : prom[p][a] = "ok" => RowsOf(p) \subseteq inserted

\* retries exhausted => the client is not told success
ExhaustedImpliesError ==
    \A r \in Reqs : status[r] = "2xx" => \A p \in PushesOf(r) : pst[p] = "ok"

\* a promise is completed once
PromiseOnce ==
    [][\A p \in Push : \A a \in Att : prom[p][a] \in {"ok", "err"} => prom'[p][a] = prom[p][a]]_vars

\* exactly one answer
AtMostOneReply ==
    [][\A r \in Reqs : hst[r] = "replied" => (hst'[r] = "replied" /\ status'[r] = status[r])]_vars

EveryRequestAnswered == \A r \in Reqs : <>(hst[r] = "replied")

(* Properties (C02), at the grain of the batch *)

\* the open batch holds exactly the rows of the promises waiting on it, in order
BatchMatchesResults ==
    \A wk \in WK : batch[wk] = FlatRows(results[wk]) /\ size[wk] = Len(batch[wk])

\* the block being inserted holds exactly the rows of the promises that will get its outcome
PortionMatchesResults ==
    \A wk \in WK : portion[wk].rows = FlatRows(portion[wk].res)

\* no row sits in two places (two batches, batch and portion, or twice in one)
AllPlaces == { <<wk, "b", i>> : wk \in WK, i \in 1..(MaxRows * Cardinality(Push)) }
NoRowTwice ==
    \A w1, w2 \in WK :
        /\ \A i \in DOMAIN batch[w1] : \A j \in DOMAIN batch[w2] :
              (batch[w1][i] = batch[w2][j]) => (w1 = w2 /\ i = j)
        /\ \A i \in DOMAIN portion[w1].rows : \A j \in DOMAIN portion[w2].rows :
              (portion[w1].rows[i] = portion[w2].rows[j]) => (w1 = w2 /\ i = j)
        /\ \A i \in DOMAIN batch[w1] : \A j \in DOMAIN portion[w2].rows :
              batch[w1][i] # portion[w2].rows[j]

\* a pending promise is always waiting in exactly one batch or portion (otherwise it would hang)
PendingIsQueued ==
    \A p \in Push : \A a \in Att : prom[p][a] = "pending" =>
        \E wk \in WK : <<p, a>> \in Range(results[wk]) \cup Range(portion[wk].res)
=============================================================================

---- MODULE MC_ColumnFill ----
EXTENDS ColumnFill
====

SPECIFICATION WdOnlySpec
CONSTANTS
  Nodes = {"n1"}
  AsyncNodes = {}
  Kinds = {"ts", "spl"}
  ParallelNum = 1
  Reqs = {"r1"}
  Dsns = {""}
  Hdrs = {""}
  ViaHTTP = FALSE
  RG = 2
  QOrphan = FALSE
  QUnknownDsn = FALSE
  QSplit = FALSE
  QDefaultSync = FALSE
  QHeaderIgnored = FALSE
  WT = 1
  MaxNow = 16
  WdKinds <- WdKindsLogs
  QWdFirst = TRUE
INVARIANTS WdNoStaleSkipped
CHECK_DEADLOCK FALSE

----------------------------- MODULE BulkIngest -----------------------------
(***************************************************************************)
(* X04: the line / element oriented ingest protocols C03 does not bind:    *)
(*   "bulk" Elasticsearch bulk   POST /_bulk, /{target}/_bulk              *)
(*          writer/utils/unmarshal/elasticUnmarshal.go elasticBulkDec:     *)
(*          NDJSON, bufio.Scanner, decodeLine once per line, the decoder   *)
(*          state between lines is e.labels                                *)
(*   "doc"  Elasticsearch doc    POST|PUT /{target}/_doc[/{id}],           *)
(*          /{target}/_create/{id}   (ElasticUnmarshal, buffered body)     *)
(*   "cf"   Cloudflare logpush   POST /cf/v1/insert                        *)
(*          datadogCFJsonUnmarshal.go: NDJSON, one event object per line   *)
(*   "ddm"  Datadog metrics      POST /api/v2/series                       *)
(*          datadogMetricsJsonUnmarshal.go: one callback per series        *)
(* All four hand rows to writer/utils/unmarshal/builder.go onEntries (the  *)
(* chunk builder of Chunker.tla: flush when the accounted size exceeds S;  *)
(* code: 1 MiB, every row costs len(text)+26); controller/builder.go       *)
(* doParse pushes every flushed chunk and, on a decoder error, answers 4xx *)
(* WITHOUT the open chunk (chunks flushed earlier stay stored).            *)
(*                                                                         *)
(* The module has two halves.  MECHANISM: the decoders transcribed, one    *)
(* action per line / per array element; named deviations of the code as    *)
(* it is are switched by the Q* constants (all FALSE = the demanded        *)
(* behaviour).  DEFINITION: Want*, what every body must produce, written   *)
(* without the decoder state.  TLC checks mechanism = definition for the   *)
(* quirk-free constants and exports (definition, as-coded mechanism) for   *)
(* every enumerated body; the binding replays the bodies into the real     *)
(* parser functions and the real HTTP routes.                              *)
(*                                                                         *)
(* What the code does, stated:                                             *)
(*  - timestamp: bulk/doc ALWAYS arrival time (time.Now() when the line is *)
(*    decoded; "@timestamp" or any other document field is ignored);       *)
(*    cf: EventTimestampMs (number, ms) or When (number, ns), otherwise    *)
(*    arrival; ddm: points[].timestamp (integer seconds) * 1e9.            *)
(*    Arrival time is a range: the clock may tick between lines (Tick),    *)
(*    a row carries the clock value at which its line was decoded.         *)
(*  - line text: the document EXACTLY as sent (bytes of the line without   *)
(*    the end-of-line marker \n or \r\n; for "doc" the whole body          *)
(*    including any newline) - never re-serialised.  ddm rows have an      *)
(*    empty text, value = the point's value, type metric.                  *)
(*  - labels: bulk type=elastic, _index=<target>, plus every string-valued *)
(*    key of the action metadata (except "type", and except "_index" when  *)
(*    the path names a target); doc type=elastic,_index,_id; cf ddsource   *)
(*    + the 7 known event fields that are non-empty; ddm __name__ +        *)
(*    resource<i>_<key>.                                                   *)
(*  - a malformed line rejects the WHOLE request (4xx); rows of the open   *)
(*    chunk are dropped, chunks flushed before stay: a rejected request    *)
(*    keeps a prefix.  An acknowledged 2xx must not hide dropped documents *)
(*    (AckedMeansStored) - the Q* deviations are where it does.            *)
(***************************************************************************)
EXTENDS Integers, Sequences, FiniteSets, TLC

CONSTANTS
    Targets,        \* target atoms, e.g. {"t1", "t2"}; "none" = no target
    MaxLines,       \* lines of a bulk / cf body
    MaxSeries,      \* series of a ddm body
    MaxMalformed,   \* structurally malformed bulk bodies (orphan document, action without document) up to this length
    S,              \* chunk size limit in rows (scaled; code: 1 MiB)
    MaxClock,       \* arrival clock ticks
    Protos, Vias,   \* subsets of {"bulk","doc","cf","ddm"}, {"parser","route"}
    \* named deviations (TRUE = the code as it is on the examined tree)
    QPathLost,      \* routes: ctx value "params" is never set for the gorilla mux routes -> {target} and {id} arrive empty
    QPathWins,      \* bulk: a path target overrides the action line's own _index (Elasticsearch: the explicit _index wins)
    QDocKey,        \* bulk: a DOCUMENT with a top-level key delete/update/index/create is taken for an action line
    QLongStops,     \* bulk/cf: a line > 64 KiB ends bufio.Scanner; scanner.Err() is never read -> 2xx, the rest is dropped
    QCfBlank,       \* cf: a blank line is decoded as an event and rejects the request
    QDdTags         \* ddm: "tags" are ignored: series differing only in tags share one label set

VARIABLES
    proto, via,     \* the protocol and the binding (direct parser call with the context the controller builds | HTTP route)
    path,           \* bulk: target of the path or "none"; doc: target; cf: "t1" = ?ddsource given, "none" = not
    rid,            \* doc: the route carries an {id}
    body,           \* Seq of line / series records
    i,              \* decoder position: next line
    lab,            \* bulk: e.labels  [set, tgt, act]  (act = line of the action whose metadata the labels carry)
    clock,          \* arrival clock
    rows, size,     \* open chunk
    out,            \* flushed chunks
    pc,             \* "decode" | "stopped" (scanner gave up) | "done" (2xx) | "rejected" (4xx)
    blame           \* ghost: deviations that took effect

vars == <<proto, via, path, rid, body, i, lab, clock, rows, size, out, pc, blame>>

NoLab == [set |-> FALSE, tgt |-> "none", act |-> 0]
TgtOrNone == Targets \cup {"none"}

\* a row: document line (series index), sub = point index, act = action line carrying the metadata (doc: 1 = has _id),
\* tgt = target, k = label-set identity (cf: label profile, ddm: 10*name + tags), ts = timestamp source, at = arrival clock
R(line, sub, act, tgt, k, ts, at) == [line |-> line, sub |-> sub, act |-> act, tgt |-> tgt, k |-> k, ts |-> ts, at |-> at]

-----------------------------------------------------------------------------
\* bodies
BulkLines == [k : {"index", "create"}, idx : TgtOrNone, id : BOOLEAN]
        \cup [k : {"delete", "update", "doc", "kdel", "kobj", "kstr", "long", "bad", "blank"}, idx : {"none"}, id : {FALSE}]
CfLines == [k : {"ev"}, ts : {"ms", "when", "arrival"}, lab : {1, 2}]
      \cup [k : {"long"}, ts : {"ms"}, lab : {1}] \cup [k : {"blank", "bad"}, ts : {"arrival"}, lab : {1}]
DdmSeries == [k : {"ser"}, name : {1, 2}, tags : {0, 1, 2}, n : {0, 1, 2}]
        \cup [k : {"bad"}, name : {1}, tags : {0}, n : {1}]
DocBodies == [k : {"doc", "kdel", "long", "bad", "blank"}]

DocIsh == {"doc", "kdel", "kobj", "kstr", "long"}          \* well-formed JSON objects that are documents
Actions == {"index", "create", "delete", "update"}

Count(b, ks) == Cardinality({j \in DOMAIN b : b[j].k \in ks})
FirstBad(b) == IF \E j \in DOMAIN b : b[j].k = "bad" THEN CHOOSE j \in DOMAIN b : b[j].k = "bad" /\ \A h \in 1..(j - 1) : b[h].k # "bad" ELSE 0

-----------------------------------------------------------------------------
\* DEFINITION
\* Elasticsearch precedence: the action's own _index, else the path's target
EsTarget(p, idx) == IF idx # "none" THEN idx ELSE p

\* bulk: a scan that knows whether an action or a document is due
\*   mode "act": an action line is due; "doc": the document of action `a` is due; "upd": the partial document of an update
RECURSIVE ScanBulk(_, _, _, _, _, _)
ScanBulk(b, p, j, mode, a, acc) ==
    IF j > Len(b)
      THEN [cls |-> IF mode = "act" THEN "wf" ELSE "dangling", rows |-> acc, at |-> 0]
      ELSE LET l == b[j] IN
        IF l.k = "blank" THEN ScanBulk(b, p, j + 1, mode, a, acc)
        ELSE IF l.k = "bad" THEN [cls |-> "fault", rows |-> acc, at |-> j]
        ELSE IF mode = "act"
          THEN IF l.k \in {"index", "create"} THEN ScanBulk(b, p, j + 1, "doc", j, acc)
               ELSE IF l.k = "delete" THEN ScanBulk(b, p, j + 1, "act", 0, acc)
               ELSE IF l.k = "update" THEN ScanBulk(b, p, j + 1, "upd", 0, acc)
               ELSE [cls |-> "orphan", rows |-> acc, at |-> j]
        ELSE IF l.k \in DocIsh
          THEN IF mode = "doc"
                 THEN ScanBulk(b, p, j + 1, "act", 0, Append(acc, R(j, 0, a, EsTarget(p, b[a].idx), 0, "arrival", 0)))
                 ELSE ScanBulk(b, p, j + 1, "act", 0, acc)       \* update: nothing is stored
          ELSE [cls |-> "missing", rows |-> acc, at |-> j]       \* an action where a document is due

WantBulk == ScanBulk(body, path, 1, "act", 0, <<>>)

RECURSIVE ScanCf(_, _, _)
ScanCf(b, j, acc) ==
    IF j > Len(b) THEN [cls |-> "wf", rows |-> acc, at |-> 0]
    ELSE IF b[j].k = "blank" THEN ScanCf(b, j + 1, acc)
    ELSE IF b[j].k = "bad" THEN [cls |-> "fault", rows |-> acc, at |-> j]
    ELSE ScanCf(b, j + 1, Append(acc, R(j, 0, 0, path, b[j].lab, b[j].ts, 0)))
WantCf == ScanCf(body, 1, <<>>)

Points(j, n, key) == [q \in 1..n |-> R(j, q, 0, "none", key, "sec", 0)]
RECURSIVE ScanDdm(_, _, _)
ScanDdm(b, j, acc) ==
    IF j > Len(b) THEN [cls |-> "wf", rows |-> acc, at |-> 0]
    ELSE IF b[j].k = "bad" THEN [cls |-> "fault", rows |-> acc, at |-> j]
    ELSE ScanDdm(b, j + 1, acc \o Points(j, b[j].n, 10 * b[j].name + b[j].tags))
WantDdm == ScanDdm(body, 1, <<>>)

\* doc: the body, whatever it is, is one document of the path's target (the code does not look into it)
WantDoc == [cls |-> "wf", rows |-> <<R(1, 0, IF rid THEN 1 ELSE 0, path, 0, "arrival", 0)>>, at |-> 0]

Want == CASE proto = "bulk" -> WantBulk [] proto = "cf" -> WantCf [] proto = "ddm" -> WantDdm [] proto = "doc" -> WantDoc

-----------------------------------------------------------------------------
\* which bodies are enumerated
BulkShape(b) ==
    LET w == ScanBulk(b, "none", 1, "act", 0, <<>>) IN
    /\ Count(b, {"long"}) <= 1 /\ Count(b, {"bad"}) <= 1
    /\ \/ w.cls = "wf"
       \/ w.cls = "fault" /\ \A j \in (w.at + 1)..Len(b) : b[j].k \in {"doc", "delete"}
       \/ w.cls \in {"orphan", "missing", "dangling"} /\ Len(b) <= MaxMalformed
CfShape(b) ==
    /\ Count(b, {"long"}) <= 1 /\ Count(b, {"bad"}) <= 1
    /\ FirstBad(b) # 0 => \A j \in (FirstBad(b) + 1)..Len(b) : b[j] = [k |-> "ev", ts |-> "ms", lab |-> 1]
DdmShape(b) ==
    /\ Count(b, {"bad"}) <= 1
    /\ FirstBad(b) # 0 => \A j \in (FirstBad(b) + 1)..Len(b) : b[j] = [k |-> "ser", name |-> 1, tags |-> 0, n |-> 1]

SeqsUpTo(X, n) == UNION {[1..m -> X] : m \in 0..n}

Init ==
    /\ proto \in Protos /\ via \in Vias
    /\ \/ proto = "bulk" /\ path \in TgtOrNone /\ rid = FALSE /\ body \in {b \in SeqsUpTo(BulkLines, MaxLines) : BulkShape(b)}
       \/ proto = "cf" /\ path \in {"none", "t1"} /\ rid = FALSE /\ body \in {b \in SeqsUpTo(CfLines, MaxLines) : CfShape(b)}
       \/ proto = "ddm" /\ path = "none" /\ rid = FALSE /\ body \in {b \in SeqsUpTo(DdmSeries, MaxSeries) : DdmShape(b)}
       \/ proto = "doc" /\ path \in Targets /\ rid \in BOOLEAN /\ body \in [1..1 -> DocBodies]
    /\ i = 1 /\ lab = NoLab /\ clock = 0
    /\ rows = <<>> /\ size = 0 /\ out = <<>> /\ pc = "decode" /\ blame = {}

-----------------------------------------------------------------------------
\* MECHANISM
\* what the decoder sees of the path: the controller reads the route variables from ctx value "params"
EffPath == IF via = "route" /\ QPathLost THEN "none" ELSE path
EffId == rid /\ ~(via = "route" /\ QPathLost)

\* builder.go onEntries + flush above the size limit
Emit(rs) ==
    LET nr == rows \o rs
        ns == size + Len(rs)
    IN IF ns > S THEN out' = Append(out, nr) /\ rows' = <<>> /\ size' = 0
                 ELSE rows' = nr /\ size' = ns /\ UNCHANGED out

Reject == pc' = "rejected" /\ UNCHANGED <<rows, size, out>>

\* decodeCreateObj: labels = type=elastic, _index=target when the path has one, then the metadata strings
\* (skipping _index when the path has a target)
CodeTarget(p, idx) == IF QPathWins THEN (IF p # "none" THEN p ELSE idx) ELSE EsTarget(p, idx)

\* elasticBulkDec.decodeLine: effect of one line on (labels, emission, outcome)
BulkEff(l) ==
    LET asDoc == [lab |-> lab, emit |-> lab.set, st |-> "decode", bl |-> {}]
        keep(bl) == [lab |-> lab, emit |-> FALSE, st |-> "decode", bl |-> bl]
    IN CASE l.k = "blank" -> keep({})                                                 \* len(line) == 0
         [] l.k = "bad" -> [lab |-> lab, emit |-> FALSE, st |-> "rejected", bl |-> {}]
         [] l.k \in {"delete", "update"} -> [lab |-> NoLab, emit |-> FALSE, st |-> "decode", bl |-> {}]
         [] l.k \in {"index", "create"} ->
              [lab |-> [set |-> TRUE, tgt |-> CodeTarget(EffPath, l.idx), act |-> i], emit |-> FALSE, st |-> "decode",
               bl |-> (IF CodeTarget(EffPath, l.idx) # EsTarget(EffPath, l.idx) THEN {"path_wins"} ELSE {})
                      \cup (IF CodeTarget(EffPath, l.idx) # CodeTarget(path, l.idx) THEN {"path_lost"} ELSE {})]
         [] l.k = "doc" -> asDoc
         [] l.k = "long" -> IF QLongStops THEN [lab |-> lab, emit |-> FALSE, st |-> "stopped", bl |-> {"long_stops"}] ELSE asDoc
         \* a document with a key named like an action: the key switch in decodeLine does not know that a document is due
         [] l.k = "kdel" -> IF QDocKey THEN [lab |-> NoLab, emit |-> FALSE, st |-> "decode", bl |-> {"doc_key"}] ELSE asDoc
         [] l.k = "kobj" -> IF QDocKey THEN [lab |-> [set |-> TRUE, tgt |-> EffPath, act |-> i], emit |-> FALSE, st |-> "decode", bl |-> {"doc_key"}]
                                       ELSE asDoc
         [] l.k = "kstr" -> IF QDocKey THEN [lab |-> lab, emit |-> FALSE, st |-> "rejected", bl |-> {"doc_key"}] ELSE asDoc

BulkLine ==
    /\ proto = "bulk" /\ pc = "decode" /\ i <= Len(body)
    /\ LET e == BulkEff(body[i]) IN
         /\ lab' = e.lab /\ blame' = blame \cup e.bl /\ pc' = e.st
         /\ IF e.emit THEN Emit(<<R(i, 0, lab.act, lab.tgt, 0, "arrival", clock)>>) ELSE UNCHANGED <<rows, size, out>>
    /\ i' = i + 1 /\ UNCHANGED <<proto, via, path, rid, body, clock>>

\* datadogCFRequestDec.Decode: every scanned line is an event
CfLine ==
    /\ proto = "cf" /\ pc = "decode" /\ i <= Len(body)
    /\ LET l == body[i]
           ev == /\ Emit(<<R(i, 0, 0, path, l.lab, l.ts, IF l.ts = "arrival" THEN clock ELSE 0)>>) /\ pc' = "decode" /\ UNCHANGED blame
       IN CASE l.k = "ev" -> ev
            [] l.k = "bad" -> Reject /\ UNCHANGED blame
            [] l.k = "blank" -> IF QCfBlank THEN Reject /\ blame' = blame \cup {"cf_blank"}
                                            ELSE UNCHANGED <<rows, size, out, pc, blame>>
            [] l.k = "long" -> IF QLongStops THEN pc' = "stopped" /\ blame' = blame \cup {"long_stops"} /\ UNCHANGED <<rows, size, out>>
                                             ELSE ev
    /\ i' = i + 1 /\ UNCHANGED <<proto, via, path, rid, body, lab, clock>>

\* datadogMetricsRequestDec.Decode: one callback per element of "series" with all its points
DdmSeriesStep ==
    /\ proto = "ddm" /\ pc = "decode" /\ i <= Len(body)
    /\ LET l == body[i] IN
         IF l.k = "bad" THEN Reject /\ UNCHANGED blame
         ELSE /\ Emit(Points(i, l.n, 10 * l.name + (IF QDdTags THEN 0 ELSE l.tags)))
              /\ blame' = IF QDdTags /\ l.tags # 0 THEN blame \cup {"dd_tags"} ELSE blame
              /\ UNCHANGED pc
    /\ i' = i + 1 /\ UNCHANGED <<proto, via, path, rid, body, lab, clock>>

\* ElasticUnmarshal.Decode: the buffered body is one row
DocStep ==
    /\ proto = "doc" /\ pc = "decode" /\ i = 1
    /\ Emit(<<R(1, 0, IF EffId THEN 1 ELSE 0, EffPath, 0, "arrival", clock)>>)
    /\ blame' = IF EffPath # path \/ EffId # rid THEN blame \cup {"path_lost"} ELSE blame
    /\ i' = 2 /\ UNCHANGED <<proto, via, path, rid, body, lab, clock, pc>>

Tick ==
    /\ pc = "decode" /\ clock < MaxClock
    /\ clock' = clock + 1
    /\ UNCHANGED <<proto, via, path, rid, body, i, lab, rows, size, out, pc, blame>>

\* Decode returned nil: final flush (always a chunk, possibly empty), 2xx
Finish ==
    /\ \/ pc = "decode" /\ i > Len(body)
       \/ pc = "stopped"
    /\ out' = Append(out, rows) /\ rows' = <<>> /\ size' = 0 /\ pc' = "done"
    /\ UNCHANGED <<proto, via, path, rid, body, i, lab, clock, blame>>

Next == BulkLine \/ CfLine \/ DdmSeriesStep \/ DocStep \/ Tick \/ Finish
Spec == Init /\ [][Next]_vars

-----------------------------------------------------------------------------
RECURSIVE Flat(_)
Flat(o) == IF o = <<>> THEN <<>> ELSE Head(o) \o Flat(Tail(o))

Terminal == pc \in {"done", "rejected"}
Stored == Flat(out)                       \* what reached the database when the response is written
NoClock(rs) == [j \in DOMAIN rs |-> [rs[j] EXCEPT !.at = 0]]
IsPrefix(a, b) == Len(a) <= Len(b) /\ a = SubSeq(b, 1, Len(a))

\* mechanism = definition (holds for the quirk-free constants, whatever S)
Conforms ==
    Terminal =>
        /\ Want.cls = "wf" => pc = "done" /\ NoClock(Stored) = Want.rows
        /\ Want.cls = "fault" => pc = "rejected" /\ IsPrefix(NoClock(Stored), Want.rows)

\* the headline: a 2xx never hides a dropped, duplicated or re-attributed document
AckedMeansStored == (pc = "done" /\ Want.cls = "wf") => NoClock(Stored) = Want.rows

\* holds for the code as it is too: stored rows are submitted documents, each at most once, in submission order
NoGarbage ==
    Terminal => \A a, b \in DOMAIN Stored :
        /\ a < b => <<Stored[a].line, Stored[a].sub>> # <<Stored[b].line, Stored[b].sub>>
        /\ a < b => Stored[a].line <= Stored[b].line
        /\ proto \in {"bulk", "cf"} => body[Stored[a].line].k \in (DocIsh \cup {"ev"})

\* arrival stamps lie within the request's interval and never run backwards
ArrivalInRange ==
    Terminal => \A a, b \in DOMAIN Stored :
        /\ Stored[a].at \in 0..clock
        /\ (a < b /\ Stored[a].ts = "arrival" /\ Stored[b].ts = "arrival") => Stored[a].at <= Stored[b].at
=============================================================================

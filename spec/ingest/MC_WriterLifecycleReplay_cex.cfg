SPECIFICATION ReplaySpec
CONSTANTS
  Nodes = {"n1"}
  AsyncNodes = {}
  Kinds = {"spl"}
  ParallelNum = 1
  Reqs = {"r1", "r2"}
  Dsns = {"n1"}
  Hdrs = {"0"}
  ViaHTTP = FALSE
  RG = 2
  QOrphan = TRUE
  QUnknownDsn = TRUE
  QSplit = FALSE
  QDefaultSync = TRUE
  QHeaderIgnored = TRUE
  WT = 1
  MaxNow = 0
  WdKinds <- WdKindsOne
  QWdFirst = FALSE
INVARIANT NoOrphan
CHECK_DEADLOCK FALSE

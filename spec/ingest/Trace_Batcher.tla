---------------------------- MODULE Trace_Batcher ----------------------------
(***************************************************************************)
(* Trace validation: events recorded from the REAL writer (HTTP handler +  *)
(* parser + doPush + insert services + fake ClickHouse client) must be a   *)
(* behaviour of Batcher.  One trace line = one Batcher action with its     *)
(* logged arguments bound; steps the code does not log (retry decision of  *)
(* doPush = Observe, the cause of a flush = TimerFire) are silent steps    *)
(* that are only enabled when the next recorded event needs them.          *)
(* All invariants of Batcher are evaluated in every state.                 *)
(* Several recorded runs are concatenated; a "Reset" line starts the next. *)
(***************************************************************************)
EXTENDS Batcher, Json, TLCExt

TraceLog == ndJsonDeserialize("trace.ndjson")

VARIABLES l,        \* index of the next trace line
          lastDo    \* [WK -> {"none","ok","err"}] outcome returned by the last Do call of the worker

tvars == <<vars, l, lastDo>>

SibLogs == [s \in Svcs |-> IF s = "spl" THEN "ts" ELSE "none"]

Ev == TraceLog[l]
More == l <= Len(TraceLog)
Is(e) == More /\ Ev.ev = e
Consume == l' = l + 1
WkOf(e) == <<e.svc, e.k>>

TraceInit == Init /\ l = 1 /\ lastDo = [wk \in WK |-> "none"]

TraceReset ==
    /\ Is("Reset")
    /\ Consume
    /\ hst' = [r \in Reqs |-> "new"]
    /\ status' = [r \in Reqs |-> "none"]
    /\ nrows' = [p \in Push |-> 0]
    /\ pst' = [p \in Push |-> "idle"]
    /\ att' = [p \in Push |-> 1]
    /\ prom' = [p \in Push |-> [a \in Att |-> "none"]]
    /\ results' = [wk \in WK |-> <<>>]
    /\ batch' = [wk \in WK |-> <<>>]
    /\ size' = [wk \in WK |-> 0]
    /\ flush' = [wk \in WK |-> FALSE]
    /\ client' = [wk \in WK |-> FALSE]
    /\ wpc' = [wk \in WK |-> "idle"]
    /\ portion' = [wk \in WK |-> NoPortion]
    /\ inserted' = {}
    /\ lastDo' = [wk \in WK |-> "none"]

\* HTTP request sent: the body carries Ev.spl sample rows; the number of series rows depends on the
\* fingerprint cache and is left to the model (bound later by the Append event).
TraceParse ==
    /\ Is("Parse")
    /\ \E n \in [Svcs -> 0..MaxRows] :
          /\ n["spl"] = Ev.spl
          /\ Parse(Ev.r, n)
    /\ Consume /\ UNCHANGED lastDo

\* svc.Request under svc.mtx: rows appended, promise queued (or completed at once when nothing was inserted)
TraceAppend ==
    /\ Is("Append")
    /\ LET wk == WkOf(Ev) IN
       \E p \in Push :
          /\ p[2] = Ev.svc
          /\ (Ev.r # "?" => p[1] = Ev.r)
          /\ nrows[p] = Ev.n
          /\ Request(p, wk)
          /\ Len(results'[wk]) = Ev.nres
          /\ (size'[wk] = 0) <=> (Ev.size = 0)
          /\ (Ev.n > 0 => Ev.reqsize > 0)          \* environment assumption rows>0 => size>0
          /\ Ev.early = (Ev.n = 0)
    /\ Consume /\ UNCHANGED lastDo

TraceConnFail ==
    /\ Is("ConnFail")
    /\ ConnFail(WkOf(Ev))
    /\ Consume /\ UNCHANGED lastDo

TraceSwap ==
    /\ Is("Swap")
    /\ LET wk == WkOf(Ev) IN
          /\ IterSwap(wk)
          /\ Ev.empty = (size[wk] = 0)
          /\ Ev.n = (IF size[wk] = 0 THEN 0 ELSE Len(results[wk]))
    /\ Consume /\ UNCHANGED lastDo

\* client.Do entered: the decoded block must hold exactly the rows of the swapped-out promises (C02)
TraceDoCall ==
    /\ Is("DoCall")
    /\ LET wk == WkOf(Ev) IN
          /\ BeforeInsert(wk)
          /\ Ev.rect
          /\ Len(Ev.rows) = Len(portion[wk].rows)
          /\ \A i \in 1..Len(Ev.rows) :
                LET row == portion[wk].rows[i] IN
                   /\ Ev.rows[i].r = row[1][1] /\ Ev.rows[i].s = row[1][2]
                   /\ (Ev.rows[i].i = 0 \/ Ev.rows[i].i = row[2])
    /\ Consume /\ UNCHANGED lastDo

TraceDoRet ==
    /\ Is("DoRet")
    /\ wpc[WkOf(Ev)] = "doing"
    /\ lastDo' = [lastDo EXCEPT ![WkOf(Ev)] = IF Ev.ok THEN "ok" ELSE "err"]
    /\ Consume /\ UNCHANGED vars

\* releaseWaiting(err): the promises of the portion get the outcome of the Do that carried their rows
TraceRelease ==
    /\ Is("Release")
    /\ LET wk == WkOf(Ev) IN
          /\ lastDo[wk] = (IF Ev.ok THEN "ok" ELSE "err")
          /\ Ev.n = Len(portion[wk].res)
          /\ DoReturn(wk, Ev.ok)
    /\ Consume /\ UNCHANGED lastDo

TraceReply ==
    /\ Is("Reply")
    /\ \/ Ev.class = "2xx" /\ ReplyOK(Ev.r)
       \/ Ev.class = "err" /\ ReplyErr(Ev.r)
       \/ Ev.class = "perr" /\ ParseError(Ev.r)
    /\ Consume /\ UNCHANGED lastDo

\* a request the recorder gave up on (reported separately as a liveness violation); the rest of the trace is still validated
TraceUnanswered == Is("Unanswered") /\ Consume /\ UNCHANGED <<vars, lastDo>>

\* ---- silent steps, enabled only when the next recorded event needs them
NeedsObserve(p) ==
    /\ More
    /\ \/ Ev.ev = "Reply" /\ Ev.r = p[1]
       \/ Ev.ev = "Append" /\ Ev.svc = p[2] /\ (Ev.r = "?" \/ Ev.r = p[1]) /\ pst[p] = "waiting"
             /\ prom[p][att[p]] = "err"
SilentObserve ==
    \E p \in Push : NeedsObserve(p) /\ Observe(p) /\ UNCHANGED <<l, lastDo>>

SilentFlush ==
    /\ More /\ Ev.ev \in {"Swap", "ConnFail"}
    /\ TimerFire(WkOf(Ev))
    /\ UNCHANGED <<l, lastDo>>

TraceNext ==
    \/ TraceReset \/ TraceParse \/ TraceAppend \/ TraceConnFail \/ TraceSwap \/ TraceDoCall
    \/ TraceDoRet \/ TraceRelease \/ TraceReply \/ TraceUnanswered \/ SilentObserve \/ SilentFlush

TraceSpec == TraceInit /\ [][TraceNext]_tvars

\* acceptance: some behaviour consumed the whole trace.  TLCSet/TLCGet registers are per worker thread,
\* so acceptance is signalled from the worker itself (run with -workers 1): the first state with
\* l = Len+1 prints TRACE-ACCEPTED and stops TLC.  HighWaterPrint (used only in the diagnostic re-run of a
\* rejected trace) prints every new maximum of l.
Accept ==
    (l = Len(TraceLog) + 1) => (PrintT("TRACE-ACCEPTED") /\ TLCSet("exit", TRUE))
HW == TLCGetOrDefault(1, 0)
HighWaterPrint ==
    (l > HW) => (PrintT(<<"HW", l>>) /\ TLCSet(1, l))
=============================================================================

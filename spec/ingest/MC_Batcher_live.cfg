SPECIFICATION FairSpec
CONSTANTS
  Reqs = {r1}
  Svcs = {"ts", "spl"}
  Workers = {1}
  MaxRows = 1
  MaxAttempts = 2
  MaxQueue = 0
  Sibling <- SibLogs
PROPERTIES EveryRequestAnswered
CHECK_DEADLOCK FALSE

SPECIFICATION RouteSpec
CONSTANTS
  Nodes <- N12
  AsyncNodes <- N2
  Kinds = {"ts", "spl"}
  ParallelNum = 1
  Reqs = {r1}
  Dsns = {"", "n1", "n2", "zz"}
  Hdrs = {"", "0", "1"}
  ViaHTTP = TRUE
  RG = 2
  QOrphan = FALSE
  QUnknownDsn = FALSE
  QSplit = TRUE
  QDefaultSync = FALSE
  QHeaderIgnored = FALSE
  WT = 1
  MaxNow = 0
  WdKinds <- WdKindsLogs
  QWdFirst = FALSE
INVARIANTS PushOnOneNode

CHECK_DEADLOCK FALSE

SPECIFICATION Spec
PROPERTIES DesignedFaultsAreAnswered ErrorFaultsGiveErrorStatus NoFaultGivesSuccess HazardsNeverAnswer
CHECK_DEADLOCK FALSE

--------------------------- MODULE IngestLifecycle ---------------------------
(***************************************************************************)
(* Goroutine lifecycle of one ingest request and what a fault in each      *)
(* stage does to it (C05).                                                 *)
(*   handler   net/http goroutine: PreRequest middlewares, then waits for  *)
(*             the parser channel and the doPush promises (builder.go)     *)
(*   parser    goroutine started by parserDoer.Do; `defer tamePanic()`     *)
(*             turns a panic into an error response (unmarshal/builder.go) *)
(*   pusher    doPush goroutine: retry.Do(svc.Request(...).Get()); NO      *)
(*             recover: a panic inside svc.Request / ProcessRequest kills  *)
(*             the process                                                 *)
(*   worker    insert service goroutine (fetchLoopIteration); NO recover   *)
(* A fault is (stage, kind): the stage's code returns an error, panics,    *)
(* spins forever, or blocks forever.  TLC computes, for every (stage,      *)
(* kind), whether the request is answered and the process survives: the    *)
(* hazards are exactly what the input-level binding has to rule out.       *)
(***************************************************************************)
EXTENDS Naturals, TLC

Stages == {"pre", "parse", "push", "insert"}
Kinds == {"none", "error", "panic", "spin", "block"}

VARIABLES fstage, fkind,      \* the injected fault
          handler,            \* "pre" | "waitParser" | "waitPush" | "responded" | "aborted" | "stuck"
          parser,             \* "idle" | "running" | "sent" | "errSent" | "spinning" | "blocked" | "done"
          pusher,             \* "idle" | "running" | "waiting" | "done" | "errDone" | "spinning" | "blocked"
          worker,             \* "idle" | "inserting" | "released" | "errReleased" | "spinning" | "blocked"
          proc,               \* "alive" | "dead"
          status              \* "none" | "2xx" | "err"

vars == <<fstage, fkind, handler, parser, pusher, worker, proc, status>>

Fault(s, k) == fstage = s /\ fkind = k

Init ==
    /\ fstage \in Stages /\ fkind \in Kinds
    /\ handler = "pre" /\ parser = "idle" /\ pusher = "idle" /\ worker = "idle"
    /\ proc = "alive" /\ status = "none"

Alive == proc = "alive"

\* ---- handler goroutine (net/http recovers a panic of the handler goroutine and drops the connection)
HandlerPre ==
    /\ Alive /\ handler = "pre"
    /\ CASE Fault("pre", "error") -> handler' = "responded" /\ status' = "err" /\ UNCHANGED parser
         [] Fault("pre", "panic") -> handler' = "aborted" /\ UNCHANGED <<status, parser>>
         [] Fault("pre", "spin") \/ Fault("pre", "block") -> handler' = "stuck" /\ UNCHANGED <<status, parser>>
         [] OTHER -> handler' = "waitParser" /\ parser' = "running" /\ UNCHANGED status
    /\ UNCHANGED <<fstage, fkind, pusher, worker, proc>>

\* ---- parser goroutine
ParserRun ==
    /\ Alive /\ parser = "running"
    /\ CASE Fault("parse", "error") \/ Fault("parse", "panic") -> parser' = "errSent"   \* tamePanic
         [] Fault("parse", "spin") -> parser' = "spinning"
         [] Fault("parse", "block") -> parser' = "blocked"
         [] OTHER -> parser' = "sent"
    /\ UNCHANGED <<fstage, fkind, handler, pusher, worker, proc, status>>

HandlerGotChunk ==
    /\ Alive /\ handler = "waitParser" /\ parser = "sent"
    /\ handler' = "waitPush" /\ pusher' = "running" /\ parser' = "done"
    /\ UNCHANGED <<fstage, fkind, worker, proc, status>>

HandlerGotParseErr ==
    /\ Alive /\ handler = "waitParser" /\ parser = "errSent"
    /\ handler' = "responded" /\ status' = "err" /\ parser' = "done"
    /\ UNCHANGED <<fstage, fkind, pusher, worker, proc>>

\* ---- doPush goroutine: svc.Request (append under the lock) then wait for the promise
PusherRequest ==
    /\ Alive /\ pusher = "running"
    /\ CASE Fault("push", "error") -> pusher' = "errDone" /\ UNCHANGED <<worker, proc>>
         [] Fault("push", "panic") -> proc' = "dead" /\ UNCHANGED <<pusher, worker>>     \* no recover
         [] Fault("push", "spin") -> pusher' = "spinning" /\ UNCHANGED <<worker, proc>>
         [] Fault("push", "block") -> pusher' = "blocked" /\ UNCHANGED <<worker, proc>>
         [] OTHER -> pusher' = "waiting" /\ worker' = "inserting" /\ UNCHANGED proc
    /\ UNCHANGED <<fstage, fkind, handler, parser, status>>

\* ---- insert worker
WorkerInsert ==
    /\ Alive /\ worker = "inserting"
    /\ CASE Fault("insert", "error") -> worker' = "errReleased" /\ UNCHANGED proc
         [] Fault("insert", "panic") -> proc' = "dead" /\ UNCHANGED worker               \* no recover
         [] Fault("insert", "spin") -> worker' = "spinning" /\ UNCHANGED proc
         [] Fault("insert", "block") -> worker' = "blocked" /\ UNCHANGED proc
         [] OTHER -> worker' = "released" /\ UNCHANGED proc
    /\ UNCHANGED <<fstage, fkind, handler, parser, pusher, status>>

PusherObserve ==
    /\ Alive /\ pusher = "waiting" /\ worker \in {"released", "errReleased"}
    /\ pusher' = IF worker = "released" THEN "done" ELSE "errDone"
    /\ UNCHANGED <<fstage, fkind, handler, parser, worker, proc, status>>

HandlerReply ==
    /\ Alive /\ handler = "waitPush" /\ pusher \in {"done", "errDone"}
    /\ handler' = "responded" /\ status' = IF pusher = "done" THEN "2xx" ELSE "err"
    /\ UNCHANGED <<fstage, fkind, parser, pusher, worker, proc>>

Next == HandlerPre \/ ParserRun \/ HandlerGotChunk \/ HandlerGotParseErr \/ PusherRequest \/ WorkerInsert
        \/ PusherObserve \/ HandlerReply
Spec == Init /\ [][Next]_vars /\ WF_vars(Next)

Answered == handler = "responded"

\* the kinds of fault the code is DESIGNED to survive: they end in a response and a live process
SurvivableByDesign ==
    \/ fkind \in {"none", "error"}
    \/ Fault("parse", "panic")

DesignedFaultsAreAnswered == SurvivableByDesign => <>(Answered /\ Alive)
ErrorFaultsGiveErrorStatus == (fkind = "error") => <>(status = "err")
NoFaultGivesSuccess == (fkind = "none") => <>(status = "2xx")

\* hazards: faults after which the request is never answered or the process is gone. The property C05 holds
\* iff no INPUT can reach one of them; that is what the input-level binding checks against the real router.
Hazard == ~SurvivableByDesign
HazardsNeverAnswer == Hazard => [](~(Answered /\ status = "2xx"))
=============================================================================

---- MODULE MC_WriterLifecycleReplay ----
(***************************************************************************)
(* Behaviour generator for schedule replay into the REAL service objects   *)
(* (harness/cmd/x03 replay).  Same state and rules as WriterLifecycle; the *)
(* steps are the ones the driver can force from outside:                   *)
(*   - a call the driver makes synchronously while every worker goroutine  *)
(*     is parked at a gate is ONE step (RRequest = Route; ReadState*; Pick; *)
(*     CheckRun; Append - RStop = StopCall; StopStep* - RRun = MMRun;      *)
(*     RRRun; RRRun);                                                      *)
(*   - worker steps end at the next gate: RSwap = Swap [; SetInserting]    *)
(*     (gate: client.Do entered), RDoReturn = DoReturn; SetIdle;           *)
(*   - the select of InsertServiceV2.Run is random when ctx.Done and       *)
(*     insertCtx.Done are both ready, so the generator never makes both    *)
(*     ready for a worker that is (or will be) in the select (that race is *)
(*     explored by TLC on the full model and met by the recorded traces);  *)
(*   - a cancelled worker in the select exits without any gate: its Exit   *)
(*     step is scheduled before anything else (Quiet);                     *)
(*   - the fake client turns a Do on a cancelled context into an error.    *)
(* gs is the value GetState must return for every service and mode.        *)
(***************************************************************************)
EXTENDS WriterLifecycle

VARIABLES gs,      \* what GetState must return
          budget   \* [force, again, flushes, stops, pace]: bounds on the steps that are always enabled (keeps random walks interesting)
WdKindsOne == <<"spl">>
rvars == <<vars, gs, budget>>

GsNow == [sv \in Svc |-> [m \in {"default", "sync", "async"} |-> MMState(sv, m)]]

WorkersOfSvc(sv) == { w \in WK : SvcOf(w) = sv }
\* no worker of sv can find ctx.Done and insertCtx.Done ready together
NoSelectRace(sv, canc, fl) ==
    \A w \in WorkersOfSvc(sv) : (canc[w] /\ fl[w]) => loop[w] \in {"woken", "exited"}

RInit(sv)      == MMInit(sv)
RInitAgain(sv) == MMInitAgain(sv)
RRunAgain(sv)  == MMRunAgain(sv) /\ \A m \in Modes : ~rrSpawn[<<sv[1], sv[2], m>>]

\* go svc.Run(): Multimodal.Run and both RoundRobin.Run
RRun(sv) ==
    /\ ~mmRunning[sv]
    /\ \A w \in WorkersOfSvc(sv) : ~(cancelled[w] /\ flush[w])
    /\ IF inited[sv] THEN UNCHANGED <<inited, wrun>> ELSE MMInitEffect(sv)
    /\ mmRunning' = [mmRunning EXCEPT ![sv] = TRUE]
    /\ rrRunning' = TLCEval([p \in Pool |-> IF <<p[1], p[2]>> = sv THEN TRUE ELSE rrRunning[p]])
    /\ loop' = TLCEval([w \in WK |-> IF SvcOf(w) = sv /\ ~rrRunning[PoolOf(w)] THEN "select" ELSE loop[w]])
    /\ spawned' = TLCEval([w \in WK |-> IF SvcOf(w) = sv /\ ~rrRunning[PoolOf(w)] THEN spawned[w] + 1 ELSE spawned[w]])
    /\ UNCHANGED <<rrSpawn, stopPos, cancelled, wst, flush, results, portion, pvars, wdvars>>

\* svc.Stop(): every worker of both pools cancelled
RStop(sv) ==
    /\ inited[sv] /\ stopPos[sv] = 0
    /\ \A w \in WorkersOfSvc(sv) : flush[w] => loop[w] \in {"woken", "exited"}
    /\ cancelled' = TLCEval([w \in WK |-> IF SvcOf(w) = sv THEN TRUE ELSE cancelled[w]])
    /\ UNCHANGED <<svars, wrun, loop, spawned, wst, flush, results, portion, pvars, wdvars>>

RPlanFlush(sv) ==
    /\ \A w \in WorkersOfSvc(sv) : cancelled[w] => loop[w] = "exited"
    /\ PlanFlush(sv)

RTimerFire(w) == (cancelled[w] => loop[w] = "exited") /\ TimerFire(w)

\* registry lookup + Multimodal.Request + RoundRobin.Request + InsertServiceV2.Request for every kind of the push
RRequest(r, d, h, nd, u) ==
    /\ rst[r] = "new"
    /\ d \in Dsns /\ h \in Hdrs /\ DrawOK(d, nd) /\ u \in [Kinds -> 0..(RG - 1)]
    /\ dsn' = [dsn EXCEPT ![r] = d] /\ hdr' = [hdr EXCEPT ![r] = h]
    /\ LET o == RouteOutcome(d, h, nd) IN
       IF o.st = "rejected"
         THEN /\ rst' = [rst EXCEPT ![r] = "rejected"]
              /\ \A k \in Kinds : u[k] = 0
              /\ UNCHANGED <<lnode, lmode, lpc, lpos, lseen, lw, oob, results>>
         ELSE /\ \A k \in Kinds : inited[<<nd[k], k>>]
              /\ rst' = [rst EXCEPT ![r] = "routed"]
              /\ LET seenOf(k) == [i \in WIdx |-> wst[<<o.node[k], k, o.pool[k], i>>]]
                     candOf(k) == CandOf(seenOf(k))
                     idxOf(k)  == DrawIdx(u[k], Len(candOf(k)))
                     wiOf(k)   == candOf(k)[idxOf(k) + 1]
                     wkOf(k)   == <<o.node[k], k, o.pool[k], wiOf(k)>>
                     mine(l)   == l[1] = r
                 IN
                 /\ \A k \in Kinds : idxOf(k) + 1 \in 1..Len(candOf(k))
                 /\ lnode' = TLCEval([l \in Leg |-> IF mine(l) THEN o.node[l[2]] ELSE lnode[l]])
                 /\ lmode' = TLCEval([l \in Leg |-> IF mine(l) THEN o.pool[l[2]] ELSE lmode[l]])
                 /\ lpos' = TLCEval([l \in Leg |-> IF mine(l) THEN W + 1 ELSE lpos[l]])
                 /\ lseen' = TLCEval([l \in Leg |-> IF mine(l) THEN seenOf(l[2]) ELSE lseen[l]])
                 /\ lw' = TLCEval([l \in Leg |-> IF mine(l) THEN wiOf(l[2]) ELSE lw[l]])
                 /\ lpc' = TLCEval([l \in Leg |-> IF mine(l) THEN (IF wrun[wkOf(l[2])] THEN "pending" ELSE "stopped")
                                                  ELSE lpc[l]])
                 /\ results' = TLCEval([w \in WK |->
                        IF \E k \in Kinds : w = wkOf(k) /\ wrun[w] THEN Append(results[w], <<r, w[2]>>) ELSE results[w]])
                 /\ UNCHANGED oob
    /\ UNCHANGED <<svars, wrun, cancelled, loop, spawned, wst, flush, portion, wdvars>>

\* the woken worker is released from the IterStart gate and runs up to the next gate
RSwap(w) ==
    /\ loop[w] = "woken"
    /\ flush' = [flush EXCEPT ![w] = FALSE]
    /\ IF results[w] = <<>>
         THEN loop' = [loop EXCEPT ![w] = "select"] /\ UNCHANGED <<results, portion, wst>>
         ELSE /\ portion' = [portion EXCEPT ![w] = results[w]]
              /\ results' = [results EXCEPT ![w] = <<>>]
              /\ loop' = [loop EXCEPT ![w] = "doing"]
              /\ wst' = [wst EXCEPT ![w] = "INSERTING"]
    /\ UNCHANGED <<svars, wrun, cancelled, spawned, pvars, wdvars>>

RDoReturn(w, ok) ==
    /\ loop[w] = "doing"
    /\ cancelled[w] => ~ok
    /\ loop' = [loop EXCEPT ![w] = "select"]
    /\ wst' = [wst EXCEPT ![w] = "IDLE"]
    /\ lpc' = Resolve(Range(portion[w]), IF ok THEN "ok" ELSE "err")
    /\ portion' = [portion EXCEPT ![w] = <<>>]
    /\ UNCHANGED <<svars, wrun, cancelled, spawned, flush, results, rst, dsn, hdr, lnode, lmode, lpos,
                   lseen, lw, oob, wdvars>>

RWake(w) == Wake(w)
RExit(w) == ~flush[w] /\ Exit(w)
RForce(w, st) == wst[w] # st /\ ForceState(w, st)

\* a cancelled worker that sits in the select leaves on its own, at once: until it has (ExitG), nothing else is scheduled
Quiet == \A w \in WK : ~(loop[w] = "select" /\ cancelled[w])
G == Quiet /\ gs' = GsNow' /\ UNCHANGED budget
Spend(f) == Quiet /\ budget[f] > 0 /\ budget' = [budget EXCEPT ![f] = @ - 1] /\ gs' = GsNow'
InitG(sv)      == RInit(sv) /\ G
InitAgainG(sv) == RInitAgain(sv) /\ Spend("again")
RunG(sv)       == RRun(sv) /\ G
RunAgainG(sv)  == RRunAgain(sv) /\ Spend("again")
StopG(sv)      == Cardinality({ r \in Reqs : rst[r] # "new" }) >= 2 /\ RStop(sv) /\ Spend("stops")
PlanFlushG(sv) == RPlanFlush(sv) /\ Spend("flushes")
\* pushes are paced by the progress of the workers, so that some arrive while an INSERT is in flight
Routed == Cardinality({ r \in Reqs : rst[r] # "new" })
RequestG(r, d, h, nd, u) == Routed < 2 + budget["pace"] /\ RRequest(r, d, h, nd, u) /\ G
Pace == Quiet /\ budget' = [budget EXCEPT !["pace"] = @ + 1] /\ gs' = GsNow'
TimerFireG(w)  == RTimerFire(w) /\ G
WakeG(w)       == RWake(w) /\ G
ExitG(w)       == RExit(w) /\ gs' = GsNow' /\ UNCHANGED budget
SwapG(w)       == RSwap(w) /\ Pace
DoReturnG(w, ok) == RDoReturn(w, ok) /\ G
ForceG(w, st)  == wrun[w] /\ RForce(w, st) /\ Spend("force")

ReplayNext ==
    \/ \E sv \in Svc : InitG(sv) \/ InitAgainG(sv) \/ RunG(sv) \/ RunAgainG(sv) \/ StopG(sv) \/ PlanFlushG(sv)
    \/ \E r \in Reqs, d \in Dsns, h \in Hdrs : \E nd \in [Kinds -> Nodes] : \E u \in [Kinds -> 0..(RG - 1)] :
          RequestG(r, d, h, nd, u)
    \/ \E w \in WK : \/ TimerFireG(w) \/ WakeG(w) \/ ExitG(w) \/ SwapG(w)
                     \/ \E ok \in BOOLEAN : DoReturnG(w, ok)
                     \/ \E st \in {"IDLE", "CLOSING"} : ForceG(w, st)
ReplayInit == Init /\ gs = GsNow /\ budget = [force |-> 3, again |-> 2, flushes |-> 3, stops |-> 2, pace |-> 0]
ReplaySpec == ReplayInit /\ [][ReplayNext]_rvars

\* every composite step is a sequence of steps of the full model: the invariants of the full model hold
====

SPECIFICATION Spec
CONSTANTS
  Targets = {"t1", "t2"}
  MaxLines = 4
  MaxSeries = 3
  MaxMalformed = 3
  S = 1
  MaxClock = 1
  Protos = {"bulk", "doc", "cf", "ddm"}
  Vias = {"parser", "route"}
  QPathLost = FALSE
  QPathWins = FALSE
  QDocKey = FALSE
  QLongStops = FALSE
  QCfBlank = FALSE
  QDdTags = FALSE
INVARIANTS Conforms AckedMeansStored NoGarbage ArrivalInRange

CHECK_DEADLOCK FALSE

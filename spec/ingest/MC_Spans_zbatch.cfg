\* Example configuration (tools/props/c06.py generates one per family and tier): Zipkin batches of up to 2 spans,
\* array and newline-delimited framing.  Run by hand in a scratch copy:
\*   tlc -workers 2 -config MC_Spans_zbatch.cfg MC_Spans.tla
SPECIFICATION Spec
CONSTANTS
  Bodies <- FamilyBodies
  Family = "zbatch"
  Limit = 16
  ExportMod = 0
  ExportSeed = 0
  MaxSpans = 2
  BatchOwn = {TRUE, FALSE}
  BatchName = {TRUE, FALSE}
  BatchRemote = {FALSE}
  OrderPos = {"first", "last"}
  OrderKeys = {"parentId", "name", "localEndpoint", "remoteEndpoint", "tags"}
  RattrSel = {1, 2, 3, 4}
  GroupKinds = {0, 1, 2}
  GroupOwn = {TRUE, FALSE}
INVARIANTS TypeOK InvAccepted InvOutsideClasses InvCleanDecoderArray
CHECK_DEADLOCK FALSE

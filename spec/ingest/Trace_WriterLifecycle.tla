------------------------ MODULE Trace_WriterLifecycle ------------------------
(***************************************************************************)
(* Trace validation for X03: events recorded from FREE-RUNNING executions  *)
(* of the real registry + multimodal / round-robin insert services (real   *)
(* timers, real math/rand, several requester goroutines, Stop at a random  *)
(* moment) must be a behaviour of WriterLifecycle.                         *)
(*                                                                         *)
(* One trace line = one WriterLifecycle action with its logged arguments   *)
(* bound.  The code has no hook at the atomic loads of the selection, at   *)
(* setState and where Run leaves: ReadState / Pick / CheckRun,             *)
(* SetInserting / SetIdle, RRRun / StopStep / Exit and the timer are       *)
(* silent steps TLC places anywhere the model allows between the recorded  *)
(* events.  What the validation decides: is the worker a push was appended *)
(* to one the selection could have chosen given SOME admissible timing of  *)
(* the state changes (a worker blocked inside client.Do IS inserting; one  *)
(* that started its next iteration HAS BEEN idle), do promises get the     *)
(* outcome of the INSERT that carried them, what happens to them across    *)
(* Stop, does Run return when and only when every worker left.             *)
(* Connections never fail in the recorded runs (a refused connection makes *)
(* the worker sleep a second; reconnects are the subject of Batcher.tla).  *)
(* Several recorded runs are concatenated; a "Reset" line starts the next. *)
(***************************************************************************)
EXTENDS WriterLifecycle, Json, TLCExt

TraceLog == ndJsonDeserialize("trace.ndjson")

VARIABLE l          \* index of the next trace line
tvars == <<vars, l>>

WdKindsOne == <<"spl">>

Ev == TraceLog[l]
More == l <= Len(TraceLog)
Is(e) == More /\ Ev.ev = e
Consume == l' = l + 1
Sv(e) == <<e.sv[1], e.sv[2]>>
Wk(e) == <<e.w[1], e.w[2], e.w[3], e.w[4]>>
Lg(e) == <<e.r, e.k>>

TraceInit == Init /\ l = 1

TraceReset ==
    /\ Is("Reset") /\ Consume
    /\ inited' = [sv \in Svc |-> FALSE] /\ mmRunning' = [sv \in Svc |-> FALSE]
    /\ rrSpawn' = [p \in Pool |-> FALSE] /\ rrRunning' = [p \in Pool |-> FALSE]
    /\ stopPos' = [sv \in Svc |-> 0]
    /\ wrun' = [w \in WK |-> FALSE] /\ cancelled' = [w \in WK |-> FALSE]
    /\ loop' = [w \in WK |-> "none"] /\ spawned' = [w \in WK |-> 0]
    /\ wst' = [w \in WK |-> "IDLE"] /\ flush' = [w \in WK |-> FALSE]
    /\ results' = [w \in WK |-> <<>>] /\ portion' = [w \in WK |-> <<>>]
    /\ rst' = [r \in Reqs |-> "new"]
    /\ dsn' = [r \in Reqs |-> CHOOSE d \in Dsns : TRUE] /\ hdr' = [r \in Reqs |-> CHOOSE h \in Hdrs : TRUE]
    /\ lnode' = [x \in Leg |-> "none"] /\ lmode' = [x \in Leg |-> "none"]
    /\ lpc' = [x \in Leg |-> "idle"] /\ lpos' = [x \in Leg |-> 1]
    /\ lseen' = [x \in Leg |-> [i \in WIdx |-> "?"]] /\ lw' = [x \in Leg |-> 0]
    /\ oob' = FALSE
    /\ UNCHANGED wdvars

\* ---- calls of the driver
TInit      == Is("Init") /\ MMInit(Sv(Ev)) /\ Consume
TInitAgain == Is("InitAgain") /\ MMInitAgain(Sv(Ev)) /\ Consume
TRunCall   == Is("RunCall") /\ MMRun(Sv(Ev)) /\ Consume
TRunAgain  == Is("RunAgain") /\ MMRunAgain(Sv(Ev)) /\ Consume       \* a second Run() has returned
TStopCall  == Is("StopCall") /\ StopCall(Sv(Ev)) /\ Consume
TStopRet   == Is("StopRet") /\ stopPos[Sv(Ev)] = 0
              /\ \A w \in WK : SvcOf(w) = Sv(Ev) => cancelled[w]
              /\ Consume /\ UNCHANGED vars
TPlanFlush == Is("PlanFlush") /\ PlanFlush(Sv(Ev)) /\ Consume
\* Run() has returned: every worker goroutine of the service has left
TRunRet    == Is("RunRet") /\ mmRunning[Sv(Ev)]
              /\ \A w \in WK : SvcOf(w) = Sv(Ev) => loop[w] = "exited"
              /\ Consume /\ UNCHANGED vars

\* ---- a push
TRoute ==
    /\ Is("Route")
    /\ \E nd \in [Kinds -> Nodes] :
          /\ \A k \in Kinds : nd[k] = Ev.node[k]
          /\ Route(Ev.r, Ev.d, Ev.h, nd)
    /\ rst'[Ev.r] = "routed"
    /\ Consume

TAppend ==
    /\ Is("Append")
    /\ lpc[Lg(Ev)] = "append" /\ WorkerOf(Lg(Ev)) = Wk(Ev)
    /\ Append_(Lg(Ev))
    /\ lpc'[Lg(Ev)] = "pending"
    /\ Len(results'[Wk(Ev)]) = Ev.nres
    /\ Consume

\* a promise was seen completed ("stopped": Request returned it already completed with "service stopped")
TDone ==
    /\ Is("Done") /\ lpc[Lg(Ev)] = Ev.out
    /\ Consume /\ UNCHANGED vars

\* a promise still pending after Run() of its service has returned and a grace period has passed
TOrphan ==
    /\ Is("Orphan") /\ lpc[Lg(Ev)] = "pending"
    /\ loop[WorkerOf(Lg(Ev))] = "exited"
    /\ Consume /\ UNCHANGED vars

\* ---- the worker goroutine
TIter     == Is("Iter") /\ Wake(Wk(Ev)) /\ Consume
TSwap     == Is("Swap") /\ Len(results[Wk(Ev)]) = Ev.n /\ Swap(Wk(Ev)) /\ Consume
\* client.Do entered: setState(INSERTING) is behind the worker; the block carries the rows of the swapped-out promises
TDoCall ==
    /\ Is("DoCall") /\ loop[Wk(Ev)] = "doing"
    /\ { x[1] : x \in Range(portion[Wk(Ev)]) } = { Ev.reqs[i] : i \in DOMAIN Ev.reqs }
    /\ Consume /\ UNCHANGED vars
TRelease ==
    /\ Is("Release") /\ Len(portion[Wk(Ev)]) = Ev.n
    /\ DoReturn(Wk(Ev), Ev.ok) /\ Consume

\* ---- silent steps
\* the insert timer: only needed in front of an Iter event of the worker
STimer ==
    /\ More /\ Ev.ev = "Iter" /\ ~flush[Wk(Ev)]
    /\ flush' = [flush EXCEPT ![Wk(Ev)] = TRUE]
    /\ UNCHANGED <<svars, wrun, cancelled, loop, spawned, wst, results, portion, pvars, wdvars, l>>
Silent ==
    /\ More
    /\ \/ \E p \in Pool : RRRun(p)
       \/ \E sv \in Svc : StopStep(sv)
       \/ \E x \in Leg : ReadState(x) \/ CheckRun(x) \/ \E u \in 0..(RG - 1) : Pick(x, u)
       \/ \E w \in WK : SetInserting(w) \/ SetIdle(w) \/ Exit(w)
       \* (intended behaviour only) an append refused under the mutex because the worker has left
       \/ \E x \in Leg : ~QOrphan /\ lpc[x] = "append" /\ ~wrun[WorkerOf(x)] /\ Append_(x)
    /\ UNCHANGED l

TraceNext ==
    \/ TraceReset \/ TInit \/ TInitAgain \/ TRunCall \/ TRunAgain \/ TStopCall \/ TStopRet \/ TPlanFlush \/ TRunRet
    \/ TRoute \/ TAppend \/ TDone \/ TOrphan
    \/ TIter \/ TSwap \/ TDoCall \/ TRelease
    \/ STimer \/ Silent

TraceSpec == TraceInit /\ [][TraceNext]_tvars

\* What the selection read and drew is history once the leg is queued or decided (PreferInserting is evaluated in
\* the state right after Pick, where nothing is masked): states that differ only in that history are one state.
Settled(x) == lpc[x] \in {"idle", "pending", "ok", "err", "stopped"}
TraceView ==
    <<svars, wrun, cancelled, loop, wst, flush, results, portion, rst, dsn, hdr, lnode, lmode, lpc, oob, l,
      [x \in Leg |-> IF Settled(x) THEN 0 ELSE lpos[x]],
      [x \in Leg |-> IF Settled(x) THEN <<>> ELSE lseen[x]],
      [x \in Leg |-> IF lpc[x] \in {"idle", "ok", "err", "stopped"} THEN 0 ELSE lw[x]]>>

\* acceptance (run with -workers 1, see Trace_Batcher)
Accept ==
    (l = Len(TraceLog) + 1) => (PrintT("TRACE-ACCEPTED") /\ TLCSet("exit", TRUE))
HW == TLCGetOrDefault(1, 0)
HighWaterPrint ==
    (l > HW) => (PrintT(<<"HW", l>>) /\ TLCSet(1, l))
=============================================================================

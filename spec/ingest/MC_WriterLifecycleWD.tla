---- MODULE MC_WriterLifecycleWD ----
(***************************************************************************)
(* The watchdog part of WriterLifecycle on its own (WdSpec), and the       *)
(* generator of real-time scenarios for harness/cmd/x03 `wd`: in WdLive    *)
(* the services of a reachable node refresh lastRequest every second (what *)
(* the one-second ping ticker of an idle worker does), the environment     *)
(* takes the database of a node away and brings it back a bounded number   *)
(* of times.  A behaviour fixes the schedule of Down/Up events and, by the *)
(* spec, the instant at which the watchdog terminates the process.         *)
(***************************************************************************)
EXTENDS WriterLifecycle

WdKindsLogs == <<"ts", "spl">>
WdKindsTs   == <<"ts">>

VARIABLE flips      \* Down/Up events still allowed
lvars == <<vars, flips>>

LiveTick ==
    /\ ~wdExited /\ now < MaxNow
    /\ (now > 0 /\ now % Period = 0) => wdDone
    /\ now' = now + 1 /\ wdDone' = FALSE
    /\ last' = TLCEval([sv \in Svc |-> IF up[sv[1]] THEN now + 1 ELSE last[sv]])
    /\ UNCHANGED <<up, wdExited, wdStaleAtExit, wdSkipped, flips>>
LiveCheck(nd) == WdCheck(nd) /\ UNCHANGED flips
LiveDown(n) == flips > 0 /\ (now % Period # 0) /\ WdDown(n) /\ flips' = flips - 1
LiveUp(n)   == flips > 0 /\ (now % Period # 0) /\ WdUp(n) /\ flips' = flips - 1

LiveNext == (LiveTick \/ (\E nd \in Nodes : LiveCheck(nd)) \/ (\E n \in Nodes : LiveDown(n) \/ LiveUp(n)))
            /\ UNCHANGED <<svars, wvars, pvars>>
LiveSpec == Init /\ flips = 2 /\ [][LiveNext]_lvars
\* the unrestricted watchdog model (any refresh pattern)
WdOnlySpec == Init /\ flips = 0 /\ [][WdNext /\ UNCHANGED <<svars, wvars, pvars, flips>>]_lvars
====

---- MODULE MC_WriterLifecycleWD ----
(***************************************************************************)
(* The watchdog part of WriterLifecycle on its own (WdSpec), and the       *)
(* generator of real-time scenarios for harness/cmd/x03 `wd`: in WdLive    *)
(* the services of a reachable node refresh lastRequest every second (what *)
(* the one-second ping ticker of an idle worker does), the environment     *)
(* takes the database of the node away and may bring it back (plan, chosen *)
(* in the initial state).  A behaviour fixes, by the spec, the instant at  *)
(* which the watchdog terminates the process.                              *)
(***************************************************************************)
EXTENDS WriterLifecycle

WdKindsLogs == <<"ts", "spl">>
WdKindsTs   == <<"ts">>

VARIABLE plan       \* [down, up]: the second in which the database of n1 goes away / comes back (0: never)
lvars == <<vars, plan>>

N == CHOOSE n \in Nodes : TRUE
DownDue == plan.down > 0 /\ now = plan.down /\ up[N]
UpDue   == plan.up > 0 /\ now = plan.up /\ ~up[N]

LiveTick ==
    /\ ~wdExited /\ now < MaxNow /\ ~DownDue /\ ~UpDue
    /\ (now > 0 /\ now % Period = 0) => wdDone
    /\ now' = now + 1 /\ wdDone' = FALSE
    /\ last' = TLCEval([sv \in Svc |-> IF up[sv[1]] THEN now + 1 ELSE last[sv]])
    /\ UNCHANGED <<up, wdExited, wdStaleAtExit, wdSkipped, plan>>
LiveCheck(nd) == WdCheck(nd) /\ UNCHANGED plan
LiveDown == DownDue /\ WdDown(N) /\ UNCHANGED plan
LiveUp   == UpDue /\ WdUp(N) /\ UNCHANGED plan

LiveNext == (LiveTick \/ (\E nd \in Nodes : LiveCheck(nd)) \/ LiveDown \/ LiveUp)
            /\ UNCHANGED <<svars, wvars, pvars>>
\* events fall between the check instants (never in a second that is a multiple of Period)
Plans == { p \in [down : 0..12, up : 0..14] :
             /\ p.down % Period # 0 \/ p.down = 0
             /\ p.up = 0 \/ (p.down > 0 /\ p.up > p.down /\ p.up % Period # 0) }
LiveSpec == Init /\ plan \in Plans /\ [][LiveNext]_lvars
\* the unrestricted watchdog model (any refresh pattern)
WdOnlySpec == Init /\ plan = [down |-> 0, up |-> 0] /\ [][WdNext /\ UNCHANGED <<svars, wvars, pvars, plan>>]_lvars
====

SPECIFICATION Spec
CONSTANTS
  Subs = {1, 2}
  NCols = 2
  Reqs = {r1, r2, r3}
  MaxRows = 2
  HandleScope = "service"
INVARIANTS Rectangular WholeRows BlockIsItsRequests
CHECK_DEADLOCK FALSE

--------------------------- MODULE MC_ProfTreeObs ---------------------------
(* Validation of observations of the REAL reader against ProfTree.tla (C16).  Each line of obs.ndjson records, for   *)
(* one case of MC_ProfTree and one sample type: the order in which the stored rows of the real writer were fed to    *)
(* the real MergeTrie (rows[i].p = profile, 0 = the row summed over all profiles as the reader SQL does; rows[i].id  *)
(* = call path), and what the real code produced: merged tree, BFS levels (trailing empty levels removed), Total().  *)
(* One initial state per observation; the spec recomputes rows from Build of the abstract profiles, folds MergeRow   *)
(* in the recorded order, lays the result out and compares.  A rejected observation is printed as OBS-REJECT and     *)
(* counted by tools/props/c16.py as a violation by the real code (never by TLC's exit status).                       *)
EXTENDS ProfTree, Json

VARIABLE oi
MCFnObs == <<"f1", "f2", "f3">>
MCNoPlans == {}
ObsLog == ndJsonDeserialize("obs.ndjson")

RECURSIVE AddN(_, _, _)
AddN(b, s, n) == IF n = 0 THEN b ELSE AddN(BagAdd(b, s), s, n - 1)
RECURSIVE BagOf(_, _)
BagOf(ss, k) == IF k > Len(ss) THEN EmptyBag
                ELSE AddN(BagOf(ss, k + 1), [stack |-> ss[k].stack, val |-> ss[k].val], ss[k].n)
RECURSIVE BuildN(_, _, _)
BuildN(t, s, n) == IF n = 0 THEN t ELSE BuildN(AddSample(t, s), s, n - 1)
RECURSIVE BuildSeq(_, _)
BuildSeq(ss, k) == IF k > Len(ss) THEN EmptyTree
                   ELSE BuildN(BuildSeq(ss, k + 1), [stack |-> ss[k].stack, val |-> ss[k].val], ss[k].n)

ObsInit ==
    /\ oi \in 1..Len(ObsLog)
    /\ profs  = [i \in 1..Len(ObsLog[oi].profs) |-> BagOf(ObsLog[oi].profs[i], 1)]
    /\ stored = [i \in 1..Len(ObsLog[oi].profs) |-> BuildSeq(ObsLog[oi].profs[i], 1)]
ObsNext == UNCHANGED <<oi, profs, stored>>
ObsSpec == ObsInit /\ [][ObsNext]_<<oi, profs, stored>>

O == ObsLog[oi]
ObsRow(r) == IF r.p = 0 THEN RowOf(Merged, r.id, O.ty) ELSE RowOf(stored[r.p], r.id, O.ty)
RefsOK == \A k \in 1..Len(O.rows) :
             IF O.rows[k].p = 0 THEN O.rows[k].id \in DOMAIN Merged
             ELSE O.rows[k].p \in 1..N /\ O.rows[k].id \in DOMAIN stored[O.rows[k].p]
ObsRT  == MergeRows(EmptyRT, [k \in 1..Len(O.rows) |-> ObsRow(O.rows[k])])
ObsTree == [k \in 1..Len(O.tree) |-> O.tree[k]]
TreeAsFn == [id \in {O.tree[k].id : k \in 1..Len(O.tree)} |->
               LET n == O.tree[CHOOSE k \in 1..Len(O.tree) : O.tree[k].id = id]
               IN  [parent |-> n.parent, fn |-> n.fn, self |-> n.self, total |-> n.total]]

Accept ==
    /\ RefsOK
    /\ View(ObsRT) = TreeAsFn                           \* the real merged tree is the spec's fold over the same rows
    /\ View(ObsRT) = Proj(Merged, O.ty)                 \* ... which is the order-free merge of the stored trees
    /\ RTTotal(ObsRT) = O.total                         \* Tree.Total
    /\ Levels(ObsRT) = O.levels                         \* BFS of the real code = BFS of the spec
    /\ Levels(ObsRT) = DeltaAll(LayoutDef(ObsRT))       \* = the definition of the layout
    /\ Nested(LayoutDef(ObsRT))                         \* whose bars nest
    /\ Conserved(Merged)

ObsChecked == IF Accept THEN TRUE
              ELSE PrintT(<<"OBS-REJECT", oi, ToJson([levels |-> Levels(ObsRT), total |-> RTTotal(ObsRT)])>>)
=============================================================================

SPECIFICATION Spec
CONSTANTS
  Targets = {"t1", "t2"}
  MaxLines = 3
  MaxSeries = 3
  MaxMalformed = 2
  S = 2
  MaxClock = 0
  Protos = {"bulk", "doc", "cf", "ddm"}
  Vias = {"parser"}
  QPathLost = FALSE
  QPathWins = FALSE
  QDocKey = FALSE
  QLongStops = FALSE
  QCfBlank = FALSE
  QDdTags = FALSE
INVARIANTS Conforms AckedMeansStored NoGarbage ArrivalInRange

CHECK_DEADLOCK FALSE

SPECIFICATION CSpec
CONSTANTS
  Nodes = {"n1", "n2"}
  AsyncNodes = {"n2"}
  Kinds = {"ts", "spl"}
  ParallelNum = 1
  Reqs = {"r1"}
  Dsns = {"n1", "n2", "", "zz"}
  Hdrs = {"", "0", "1"}
  ViaHTTP = TRUE
  RG = 2
  QOrphan = TRUE
  QUnknownDsn = TRUE
  QSplit = TRUE
  QDefaultSync = TRUE
  QHeaderIgnored = TRUE
  WT = 1
  MaxNow = 0
  WdKinds <- WdKindsLogs
  QWdFirst = TRUE
  OutFile = "cases_m.json"
CHECK_DEADLOCK FALSE

SPECIFICATION ReplaySpec
CONSTANTS
  Reqs = {"r1", "r2", "r3"}
  Svcs = {"ts", "spl"}
  Workers = {1}
  MaxRows = 2
  MaxAttempts = 2
  MaxQueue = 2
  Sibling <- SibLogs
INVARIANTS AckImpliesInserted PromiseOkImpliesInserted BatchMatchesResults PortionMatchesResults
CHECK_DEADLOCK FALSE

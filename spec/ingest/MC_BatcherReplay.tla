---- MODULE MC_BatcherReplay ----
(* Behaviour generator for schedule replay into the real insert services (harness/cmd/c01replay).   *)
(* Same actions as Batcher; Next is restricted to the steps the service-level driver can force:     *)
(* no ParseError / PingFail, timers only fire on non-empty batches (empty swaps still happen through *)
(* the sibling flush).  ConnFail is a stuttering step; the driver injects it (seeded) before an      *)
(* IterSwap whose pre-state has no client.                                                           *)
EXTENDS Batcher
SibLogs == [s \in {"ts", "spl"} |-> IF s = "spl" THEN "ts" ELSE "none"]
RTimerFire(wk) == size[wk] > 0 /\ TimerFire(wk)
ReplayNext ==
    \/ \E r \in Reqs : \E n \in [Svcs -> 0..MaxRows] : Parse(r, n)
    \/ \E r \in Reqs : ReplyOK(r) \/ ReplyErr(r)
    \/ \E p \in Push : Observe(p) \/ \E wk \in WK : Request(p, wk)
    \/ \E wk \in WK : \/ RTimerFire(wk) \/ IterSwap(wk) \/ BeforeInsert(wk)
                      \/ \E ok \in BOOLEAN : DoReturn(wk, ok)
ReplaySpec == Init /\ [][ReplayNext]_vars
====

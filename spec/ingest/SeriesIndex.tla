----------------------------- MODULE SeriesIndex -----------------------------
(***************************************************************************)
(* History of the series index (C04): every acknowledged sample must have  *)
(* a series row under a day the read side searches.                        *)
(*   writer/utils/unmarshal/builder.go onEntries/maybeAddFp: a series row  *)
(*       is emitted the first time a (UTC day, fingerprint) pair is seen;  *)
(*       the pair is put into the cache AT PARSE TIME                      *)
(*   writer/utils/numbercache: the cache is cleared every 30 minutes       *)
(*   series and samples are inserted by two independent services; the      *)
(*       request is acknowledged iff both inserts (after retries) succeed  *)
(*   stored day = ch-go ToDate(UTC midnight of the sample) which adds the  *)
(*       PROCESS time-zone offset unless the time value is in UTC          *)
(*   read side: date >= utcDate(from - 30 min)  (sql_misc.go FormatFromDate)*)
(*   writer/controller/builder.go doParse: a request is rejected as a whole*)
(*       when ANY stream of its body fails to parse -- also when streams    *)
(*       in front of the malformed one were already handed to onEntries     *)
(*       (their cache keys are set at that moment); nothing of a rejected   *)
(*       request is inserted                                                *)
(* Time is in hours.  A push is one sample of one series, alone in its body *)
(* (tail "none") or together with a stream that does not parse, placed      *)
(* after it ("bad_after": the good stream was decoded, then the request     *)
(* fails) or in front of it ("bad_before": the parser never reaches it).    *)
(***************************************************************************)
EXTENDS Integers, FiniteSets, TLC

CONSTANTS
    Fps,            \* series
    Times,          \* sample timestamps (hours since day 0)
    MaxPushes,
    ZoneOffset,     \* UTC offset (hours) of the writer process
    DateCarriesLocalZone,  \* TRUE: the date handed to ch-go carries the local zone, so ToDate adds ZoneOffset
                           \* (the code before fix e35978d); FALSE: the date is a UTC time (current tree)
    CacheSetBeforeInsert   \* TRUE: the cache is set at parse time (as the code does); FALSE: only after the series insert succeeded

VARIABLES cache, dbSeries, dbSamples, acked, npush, lastStatus

vars == <<cache, dbSeries, dbSamples, acked, npush, lastStatus>>

UtcDay(t) == t \div 24
WriterOffset == IF DateCarriesLocalZone THEN ZoneOffset ELSE 0
StoredDay(t) == (UtcDay(t) * 24 + WriterOffset) \div 24
\* lower date bound of a query whose window starts at the sample: utcDate(t - 30 min)
LowerBoundDay(t) == (2 * t - 1) \div 48

Init == cache = {} /\ dbSeries = {} /\ dbSamples = {} /\ acked = {} /\ npush = 0 /\ lastStatus = "none"

Tails == {"none", "bad_after", "bad_before"}

\* one push request carrying sample (fp, t); sOk / pOk: outcome of the series / samples INSERT (after retries);
\* tail: the rest of the body (a stream that does not parse, after or in front of the good one)
Push(fp, t, sOk, pOk, tail) ==
    /\ npush < MaxPushes
    /\ LET parsed == tail = "none"                 \* the whole body parses
           decoded == tail # "bad_before"          \* the good stream reached onEntries (its cache key was looked up / set)
           new == <<UtcDay(t), fp>> \notin cache
           ok == parsed /\ pOk /\ (new => sOk)
       IN \* CacheSetBeforeInsert = FALSE is the code since fix eb377cd: the key is set at parse time and forgotten again when
          \* the request fails (either INSERT), so it stays only for a request that was acknowledged
          \* -- whatever made it fail: an INSERT or a later stream of the body that does not parse
          /\ cache' = IF new /\ ((CacheSetBeforeInsert /\ decoded) \/ ok) THEN cache \cup {<<UtcDay(t), fp>>} ELSE cache
          /\ dbSeries' = IF parsed /\ new /\ sOk THEN dbSeries \cup {<<StoredDay(t), fp>>} ELSE dbSeries
          /\ dbSamples' = IF parsed /\ pOk THEN dbSamples \cup {<<fp, t>>} ELSE dbSamples
          /\ acked' = IF ok THEN acked \cup {<<fp, t>>} ELSE acked
          /\ lastStatus' = IF ok THEN "2xx" ELSE "err"
    /\ npush' = npush + 1

CacheReset == cache # {} /\ cache' = {} /\ UNCHANGED <<dbSeries, dbSamples, acked, npush, lastStatus>>

\* (the INSERT outcomes are irrelevant for a body that does not parse: nothing is inserted)
Next == \/ \E fp \in Fps, t \in Times, sOk, pOk \in BOOLEAN : Push(fp, t, sOk, pOk, "none")
        \/ \E fp \in Fps, t \in Times, tail \in Tails \ {"none"} : Push(fp, t, TRUE, TRUE, tail)
        \/ CacheReset
Spec == Init /\ [][Next]_vars

Discoverable(fp, t) == \E s \in dbSeries : s[2] = fp /\ s[1] >= LowerBoundDay(t)

\* every acknowledged sample belongs to a series whose index row was inserted under a day the read side searches
AckedDiscoverable == \A a \in acked : Discoverable(a[1], a[2])
\* acknowledged samples are stored
AckedStored == acked \subseteq dbSamples
=============================================================================

--------------------------- MODULE WriterLifecycle ---------------------------
(***************************************************************************)
(* X03 - the SERVICE LAYER of qryn's writer around the batcher that        *)
(* Batcher.tla (C01/C02) covers.  Batcher.tla looks INTO one insert worker *)
(* (rows, columns, sizes, retries, reconnects); this module looks AT the   *)
(* workers from outside: which worker of which pool of which database node *)
(* a push is handed to, what Init/Run/Stop do to queued pushes, and when   *)
(* the watchdog terminates the process.  A batch is abstracted to the      *)
(* sequence of pushes queued in it.                                        *)
(*                                                                         *)
(* One action per critical section of the code:                            *)
(*                                                                         *)
(*  writer/controller/middleware.go                                        *)
(*     WithOverallContextMiddleware + withTSAndSampleService -> Route      *)
(*  writer/service/registry/staticServiceRegistry.go                       *)
(*     staticServiceRegistryGetService (name match, else rand under        *)
(*     r.mtx); the middleware looks the FIRST service of a push up with    *)
(*     the DSN and the others with the name of the node that one resolved  *)
(*     to: one draw per push                                -> Route       *)
(*  writer/service/genericInsertService.go                                 *)
(*     InsertServiceV2Multimodal.Request (switch on mode)   -> PoolMode    *)
(*     InsertServiceV2RoundRobin.Request                                   *)
(*        GetState of every worker (atomic loads, no lock)  -> ReadState   *)
(*        rand.Float64 under svc.mtx + index                -> Pick        *)
(*     InsertServiceV2.Request                                             *)
(*        `if !svc.running` (no lock)                       -> CheckRun    *)
(*        append under svc.mtx                              -> Append      *)
(*     InsertServiceV2.Run  select{ctx.Done|insertCtx.Done} -> Exit | Wake *)
(*        fetchLoopIteration: connect fails                 -> ConnFail    *)
(*                            swapBuffers (under svc.mtx)   -> Swap        *)
(*                            setState(INSERTING)           -> SetInserting*)
(*                            client.Do + releaseWaiting    -> DoReturn    *)
(*                            deferred setState(IDLE)       -> SetIdle     *)
(*     insertCtx timeout                                    -> TimerFire   *)
(*     Multimodal.Init / init()   (under svc.mtx)           -> MMInit      *)
(*     Multimodal.Run  (under svc.mtx, then wg.Wait)        -> MMRun       *)
(*     RoundRobin.Run  (under svc.mtx, then wg.Wait)        -> RRRun       *)
(*     Multimodal.Stop -> RoundRobin.Stop -> worker cancel()               *)
(*                                        -> StopCall, StopStep            *)
(*     Multimodal.PlanFlush fan-out                         -> PlanFlush   *)
(*  writer/watchdog/watchdog.go            (second part of the module)     *)
(*                                                                         *)
(* IMPLEMENTATION QUIRKS.  The constants Q... select, per rule, between    *)
(* what the code does (TRUE) and what the property demands (FALSE).  The   *)
(* check determines the quirk set of the code under test by replaying, on  *)
(* the real code, the counterexample TLC finds for the corresponding       *)
(* property with the quirk on; an exhibited quirk is reported as a         *)
(* violation.  Conformance replay and trace validation then use the quirk  *)
(* set the code exhibits.                                                  *)
(* RETIRED quirks (repaired in the code, believed FALSE): QSplit (every    *)
(* kind of a push drew its node on its own) and QWdFirst (watchdog.Check   *)
(* returned after the first Ping).  Their TRUE variants stay as model      *)
(* mutations: TLC must refute PushOnOneNode / WdNoStaleSkipped on them     *)
(* (non-vacuity), and real code that matches a TRUE variant again is       *)
(* reported under the property it breaks.                                  *)
(***************************************************************************)
EXTENDS Integers, Sequences, FiniteSets, TLC

CONSTANTS
    Nodes,          \* database nodes (DATABASE_DATA entries), e.g. {"n1", "n2"}
    AsyncNodes,     \* nodes configured with async_insert = true
    Kinds,          \* service kinds one push is split over, e.g. {"ts", "spl"}
    ParallelNum,    \* configured workers per pool; the constructors clamp <= 0 to 1
    Reqs,           \* pushes
    Dsns,           \* X-CH-DSN values a push may carry: node names, "" (absent), "zz" (unknown)
    Hdrs,           \* insert mode a push may name: "" (default), "0" (sync), "1" (async)
    ViaHTTP,        \* TRUE: the mode is the X-Async-Insert header seen by the HTTP handlers
                    \* FALSE: the mode is the argument of IInsertServiceV2.Request
    RG,             \* grid of the random draws: f = u / RG, u \in 0..RG-1
    QOrphan,        \* Run leaves the promises of the open batch pending when it exits on ctx.Done
    QUnknownDsn,    \* an X-CH-DSN that names no node falls through to the random choice
    QSplit,         \* (retired) without a usable DSN every service kind of one push draws its node independently
    QDefaultSync,   \* Multimodal.Request(default mode) uses the sync pool even on an async node
    QHeaderIgnored  \* doParse passes INSERT_MODE_SYNC whatever X-Async-Insert says

Clamp(p) == IF p <= 0 THEN 1 ELSE p                       \* impl.New...InsertService: `if opts.ParallelNum <= 0`
W     == Clamp(ParallelNum)                               \* workers per pool: never zero
WIdx  == 1..W
Modes == {"sync", "async"}
Svc   == Nodes \X Kinds                                   \* one InsertServiceV2Multimodal
Pool  == Nodes \X Kinds \X Modes                          \* one InsertServiceV2RoundRobin
WK    == Nodes \X Kinds \X Modes \X WIdx                  \* one InsertServiceV2
Leg   == Reqs \X Kinds                                    \* the part of a push that goes to one service kind

PoolOf(w)   == <<w[1], w[2], w[3]>>
SvcOf(w)    == <<w[1], w[2]>>
WorkersOf(p) == { <<p[1], p[2], p[3], i>> : i \in WIdx }
\* order in which Multimodal.Stop cancels the workers of a service: sync 1..W, async 1..W
StopOrder(sv) == [ j \in 1..(2 * W) |->
                    IF j <= W THEN <<sv[1], sv[2], "sync", j>> ELSE <<sv[1], sv[2], "async", j - W>> ]

VARIABLES
    \* ---- service objects
    inited,     \* [Svc  -> BOOLEAN]  Multimodal.SyncService != nil (pools and workers exist, workers Init()ed)
    mmRunning,  \* [Svc  -> BOOLEAN]  Multimodal.running
    rrSpawn,    \* [Pool -> BOOLEAN]  goroutine `RoundRobin.Run()` started by Multimodal.Run, not yet executed
    rrRunning,  \* [Pool -> BOOLEAN]  RoundRobin.running
    stopPos,    \* [Svc  -> 0..2W]    0: no Stop call in progress, j: next worker to cancel is StopOrder[j]
    \* ---- workers
    wrun,       \* [WK -> BOOLEAN]    InsertServiceV2.running (set by Init, cleared when Run exits)
    cancelled,  \* [WK -> BOOLEAN]    svc.ctx is done
    loop,       \* [WK -> {"none","select","woken","swapped","doing","released","exited"}]  the Run goroutine
    spawned,    \* [WK -> Nat]        number of Run goroutines ever started for the worker
    wst,        \* [WK -> {"IDLE","INSERTING","CLOSING"}]  svc.state
    flush,      \* [WK -> BOOLEAN]    svc.insertCtx is done
    results,    \* [WK -> Seq(Leg)]   promises of the open batch
    portion,    \* [WK -> Seq(Leg)]   promises of the batch handed to client.Do
    \* ---- pushes
    rst,        \* [Reqs -> {"new","routed","rejected"}]
    dsn,        \* [Reqs -> Dsns]
    hdr,        \* [Reqs -> Hdrs]
    lnode,      \* [Leg -> Nodes \cup {"none"}]  node the registry resolved for the leg
    lmode,      \* [Leg -> Modes \cup {"none"}]  pool chosen by Multimodal.Request
    lpc,        \* [Leg -> {"idle","read","pick","check","append","pending","ok","err","stopped"}]
    lpos,       \* [Leg -> 1..W+1]    next worker whose state RoundRobin.Request reads
    lseen,      \* [Leg -> [WIdx -> {"?","IDLE","INSERTING","CLOSING"}]]  states read so far
    lw,         \* [Leg -> 0..W]      index of the chosen worker
    oob,        \* BOOLEAN            an index computed by a selection was out of range
    \* ---- watchdog (second part)
    now, last, up, wdExited, wdStaleAtExit, wdSkipped, wdDone

svars == <<inited, mmRunning, rrSpawn, rrRunning, stopPos>>
wvars == <<wrun, cancelled, loop, spawned, wst, flush, results, portion>>
pvars == <<rst, dsn, hdr, lnode, lmode, lpc, lpos, lseen, lw, oob>>
wdvars == <<now, last, up, wdExited, wdStaleAtExit, wdSkipped, wdDone>>
vars  == <<svars, wvars, pvars, wdvars>>

Range(f) == { f[i] : i \in DOMAIN f }
WorkerOf(l) == <<lnode[l], l[2], lmode[l], lw[l]>>

\* ---- mode resolution
HdrMode(h) == CASE h = "0" -> "sync" [] h = "1" -> "async" [] OTHER -> "default"
\* the mode argument that reaches Multimodal.Request (via: through the HTTP handlers)
ModeArgL(via, h) == IF via /\ QHeaderIgnored THEN "sync" ELSE HdrMode(h)
ModeArg(h) == ModeArgL(ViaHTTP, h)
\* Multimodal.Request: the pool that serves the mode on node n
PoolMode(n, m) == CASE m = "sync"  -> "sync"
                    [] m = "async" -> "async"
                    [] OTHER       -> IF n \in AsyncNodes /\ ~QDefaultSync THEN "async" ELSE "sync"
\* what the push asked for, all quirks aside
IntendedPool(n, h) == CASE HdrMode(h) = "sync"  -> "sync"
                        [] HdrMode(h) = "async" -> "async"
                        [] OTHER                -> IF n \in AsyncNodes THEN "async" ELSE "sync"

\* ---- InsertServiceV2RoundRobin.GetState / InsertServiceV2Multimodal.GetState
RRState(p) == IF \E w \in WorkersOf(p) : wst[w] = "INSERTING" THEN "INSERTING"
              ELSE IF \E w \in WorkersOf(p) : wst[w] = "IDLE" THEN "IDLE" ELSE "CLOSING"
MMState(sv, m) == CASE m = "sync"  -> RRState(<<sv[1], sv[2], "sync">>)
                    [] m = "async" -> RRState(<<sv[1], sv[2], "async">>)
                    [] OTHER       -> IF sv[1] \in AsyncNodes THEN RRState(<<sv[1], sv[2], "async">>)
                                      ELSE RRState(<<sv[1], sv[2], "sync">>)

TypeOK ==
    /\ inited \in [Svc -> BOOLEAN] /\ mmRunning \in [Svc -> BOOLEAN]
    /\ rrSpawn \in [Pool -> BOOLEAN] /\ rrRunning \in [Pool -> BOOLEAN]
    /\ stopPos \in [Svc -> 0..(2 * W)]
    /\ wrun \in [WK -> BOOLEAN] /\ cancelled \in [WK -> BOOLEAN] /\ flush \in [WK -> BOOLEAN]
    /\ loop \in [WK -> {"none", "select", "woken", "swapped", "doing", "released", "exited"}]
    /\ wst \in [WK -> {"IDLE", "INSERTING", "CLOSING"}]
    /\ \A w \in WK : spawned[w] \in Nat
    /\ rst \in [Reqs -> {"new", "routed", "rejected"}]
    /\ lnode \in [Leg -> Nodes \cup {"none"}] /\ lmode \in [Leg -> Modes \cup {"none"}]
    /\ lpc \in [Leg -> {"idle", "read", "pick", "check", "append", "pending", "ok", "err", "stopped"}]
    /\ lpos \in [Leg -> 1..(W + 1)] /\ lw \in [Leg -> 0..W]
    /\ oob \in BOOLEAN

WDInitVals ==
    /\ now = 0 /\ last = [sv \in Svc |-> 0] /\ up = [n \in Nodes |-> TRUE]
    /\ wdExited = FALSE /\ wdStaleAtExit = {} /\ wdSkipped = {} /\ wdDone = FALSE

Init ==
    /\ inited = [sv \in Svc |-> FALSE] /\ mmRunning = [sv \in Svc |-> FALSE]
    /\ rrSpawn = [p \in Pool |-> FALSE] /\ rrRunning = [p \in Pool |-> FALSE]
    /\ stopPos = [sv \in Svc |-> 0]
    /\ wrun = [w \in WK |-> FALSE] /\ cancelled = [w \in WK |-> FALSE]
    /\ loop = [w \in WK |-> "none"] /\ spawned = [w \in WK |-> 0]
    /\ wst = [w \in WK |-> "IDLE"] /\ flush = [w \in WK |-> FALSE]
    /\ results = [w \in WK |-> <<>>] /\ portion = [w \in WK |-> <<>>]
    /\ rst = [r \in Reqs |-> "new"]
    /\ dsn = [r \in Reqs |-> CHOOSE d \in Dsns : TRUE] /\ hdr = [r \in Reqs |-> CHOOSE h \in Hdrs : TRUE]
    /\ lnode = [l \in Leg |-> "none"] /\ lmode = [l \in Leg |-> "none"]
    /\ lpc = [l \in Leg |-> "idle"] /\ lpos = [l \in Leg |-> 1]
    /\ lseen = [l \in Leg |-> [i \in WIdx |-> "?"]] /\ lw = [l \in Leg |-> 0]
    /\ oob = FALSE
    /\ WDInitVals

-----------------------------------------------------------------------------
(* Lifecycle of a Multimodal service *)

\* Init(): under svc.mtx; `if svc.SyncService != nil return`.  Creates both pools; every worker is Init()ed,
\* which sets InsertServiceV2.running = true (Requests are accepted from here on, Run or not).
MMInitEffect(sv) ==
    /\ inited' = [inited EXCEPT ![sv] = TRUE]
    /\ wrun' = TLCEval([w \in WK |-> IF SvcOf(w) = sv THEN TRUE ELSE wrun[w]])

MMInit(sv) ==
    /\ ~inited[sv]
    /\ MMInitEffect(sv)
    /\ UNCHANGED <<mmRunning, rrSpawn, rrRunning, stopPos, cancelled, loop, spawned, wst, flush, results, portion,
                   pvars, wdvars>>

\* Init() on an initialised service: nothing changes (idempotence is the `!= nil` test under the mutex)
MMInitAgain(sv) == inited[sv] /\ UNCHANGED vars

\* Run(): under svc.mtx: init(); `if svc.running return`; start the two RoundRobin.Run goroutines
MMRun(sv) ==
    /\ ~mmRunning[sv]
    /\ IF inited[sv] THEN UNCHANGED <<inited, wrun>> ELSE MMInitEffect(sv)
    /\ mmRunning' = [mmRunning EXCEPT ![sv] = TRUE]
    /\ rrSpawn' = TLCEval([p \in Pool |-> IF <<p[1], p[2]>> = sv THEN TRUE ELSE rrSpawn[p]])
    /\ UNCHANGED <<rrRunning, stopPos, cancelled, loop, spawned, wst, flush, results, portion, pvars, wdvars>>

\* a second Run(): returns at once, starts nothing
MMRunAgain(sv) == mmRunning[sv] /\ UNCHANGED vars

\* RoundRobin.Run(): under svc.mtx: `if svc.running return`; one goroutine per worker
RRRun(p) ==
    /\ rrSpawn[p]
    /\ rrSpawn' = [rrSpawn EXCEPT ![p] = FALSE]
    /\ IF rrRunning[p]
         THEN UNCHANGED <<rrRunning, loop, spawned>>
         ELSE /\ rrRunning' = [rrRunning EXCEPT ![p] = TRUE]
              /\ loop' = TLCEval([w \in WK |-> IF PoolOf(w) = p THEN "select" ELSE loop[w]])
              /\ spawned' = TLCEval([w \in WK |-> IF PoolOf(w) = p THEN spawned[w] + 1 ELSE spawned[w]])
    /\ UNCHANGED <<inited, mmRunning, stopPos, wrun, cancelled, wst, flush, results, portion, pvars, wdvars>>

\* Stop(): no lock; SyncService.Stop() then AsyncService.Stop(); each cancels its workers one after the other
StopCall(sv) ==
    /\ inited[sv] /\ stopPos[sv] = 0
    /\ stopPos' = [stopPos EXCEPT ![sv] = 1]
    /\ UNCHANGED <<inited, mmRunning, rrSpawn, rrRunning, wvars, pvars, wdvars>>

StopStep(sv) ==
    /\ stopPos[sv] > 0
    /\ cancelled' = [cancelled EXCEPT ![StopOrder(sv)[stopPos[sv]]] = TRUE]
    /\ stopPos' = [stopPos EXCEPT ![sv] = IF @ = 2 * W THEN 0 ELSE @ + 1]
    /\ UNCHANGED <<inited, mmRunning, rrSpawn, rrRunning, wrun, loop, spawned, wst, flush, results, portion,
                   pvars, wdvars>>

\* PlanFlush(): insertCancel() of every worker of both pools (each under the worker's mutex)
PlanFlush(sv) ==
    /\ inited[sv]
    /\ flush' = TLCEval([w \in WK |-> IF SvcOf(w) = sv THEN TRUE ELSE flush[w]])
    /\ UNCHANGED <<svars, wrun, cancelled, loop, spawned, wst, results, portion, pvars, wdvars>>

-----------------------------------------------------------------------------
(* A push: middleware -> registry -> Multimodal.Request -> RoundRobin.Request -> InsertServiceV2.Request *)

\* withTSAndSampleService: one registry lookup per service kind.  A DSN that names a node selects it for
\* every kind.  Otherwise the first lookup draws (rand.Intn under r.mtx) and the further lookups name the node
\* it resolved to; the quirks decide whether an unknown DSN is refused and (retired QSplit) whether every kind
\* draws on its own.  nd is the node each kind ends up with.  (A bare registry.Get*Service(dsn) call still draws
\* on its own whenever the dsn names no node: that is the API, not a deviation.)
Refused(d) == d \notin Nodes /\ d # "" /\ ~QUnknownDsn
DrawOK(d, nd) ==
    /\ nd \in [Kinds -> Nodes]
    /\ (Refused(d) => \A k \in Kinds : nd[k] = CHOOSE n \in Nodes : TRUE)        \* (nothing is drawn)
    /\ (d \in Nodes => \A k \in Kinds : nd[k] = d)                               \* (nothing is drawn)
    /\ (d \notin Nodes /\ ~QSplit => \A k1, k2 \in Kinds : nd[k1] = nd[k2])       \* one draw for the push
RouteOutcomeL(via, d, h, nd) ==
    [ st   |-> IF Refused(d) THEN "rejected" ELSE "routed",
      node |-> [k \in Kinds |-> IF Refused(d) THEN "none" ELSE nd[k]],
      pool |-> [k \in Kinds |-> IF Refused(d) THEN "none" ELSE PoolMode(nd[k], ModeArgL(via, h))] ]
RouteOutcome(d, h, nd) == RouteOutcomeL(ViaHTTP, d, h, nd)

Route(r, d, h, nd) ==
    /\ rst[r] = "new"
    /\ d \in Dsns /\ h \in Hdrs /\ DrawOK(d, nd)
    /\ dsn' = [dsn EXCEPT ![r] = d] /\ hdr' = [hdr EXCEPT ![r] = h]
    /\ LET o == RouteOutcome(d, h, nd) IN
       IF o.st = "rejected"
         THEN /\ rst' = [rst EXCEPT ![r] = "rejected"]
              /\ UNCHANGED <<lnode, lmode, lpc>>
         ELSE /\ \A k \in Kinds : inited[<<nd[k], k>>]          \* pushes are served after Init (else nil deref)
              /\ rst' = [rst EXCEPT ![r] = "routed"]
              /\ lnode' = TLCEval([l \in Leg |-> IF l[1] = r THEN o.node[l[2]] ELSE lnode[l]])
              /\ lmode' = TLCEval([l \in Leg |-> IF l[1] = r THEN o.pool[l[2]] ELSE lmode[l]])
              /\ lpc' = TLCEval([l \in Leg |-> IF l[1] = r THEN "read" ELSE lpc[l]])
    /\ UNCHANGED <<svars, wvars, lpos, lseen, lw, oob, wdvars>>

\* RoundRobin.Request, loop over svc.services: one atomic load per worker, no lock
ReadState(l) ==
    /\ lpc[l] = "read"
    /\ LET w == <<lnode[l], l[2], lmode[l], lpos[l]>> IN
          lseen' = [lseen EXCEPT ![l][lpos[l]] = wst[w]]
    /\ lpos' = [lpos EXCEPT ![l] = @ + 1]
    /\ lpc' = [lpc EXCEPT ![l] = IF lpos[l] = W THEN "pick" ELSE "read"]
    /\ UNCHANGED <<svars, wvars, rst, dsn, hdr, lnode, lmode, lw, oob, wdvars>>

IdxSeq(S) == LET RECURSIVE build(_, _)
                 build(i, acc) == IF i > W THEN acc
                                  ELSE build(i + 1, IF i \in S THEN Append(acc, i) ELSE acc)
             IN build(1, <<>>)
SeenAsIn(seen, st) == { i \in WIdx : seen[i] = st }
SeenAs(l, st) == SeenAsIn(lseen[l], st)
\* candidates: the workers seen INSERTING, else those seen IDLE, else all
CandOf(seen) == IF SeenAsIn(seen, "INSERTING") # {} THEN IdxSeq(SeenAsIn(seen, "INSERTING"))
                ELSE IF SeenAsIn(seen, "IDLE") # {} THEN IdxSeq(SeenAsIn(seen, "IDLE")) ELSE IdxSeq(WIdx)
Cand(l) == CandOf(lseen[l])
\* int(f * float64(n)) with f = u / RG
DrawIdx(u, n) == (u * n) \div RG

\* randomIdx := rand.Float64() under svc.mtx; cand[int(randomIdx * float64(len(cand)))]
Pick(l, u) ==
    /\ lpc[l] = "pick"
    /\ u \in 0..(RG - 1)
    /\ LET c == Cand(l)
           idx == DrawIdx(u, Len(c))
       IN IF idx + 1 \in 1..Len(c)
            THEN lw' = [lw EXCEPT ![l] = c[idx + 1]] /\ UNCHANGED oob
            ELSE oob' = TRUE /\ UNCHANGED lw
    /\ lpc' = [lpc EXCEPT ![l] = "check"]
    /\ UNCHANGED <<svars, wvars, rst, dsn, hdr, lnode, lmode, lpos, lseen, wdvars>>

\* InsertServiceV2.Request: `if !svc.running` - read without the mutex
CheckRun(l) ==
    /\ lpc[l] = "check" /\ lw[l] > 0
    /\ lpc' = [lpc EXCEPT ![l] = IF wrun[WorkerOf(l)] THEN "append" ELSE "stopped"]
    /\ UNCHANGED <<svars, wvars, rst, dsn, hdr, lnode, lmode, lpos, lseen, lw, oob, wdvars>>

\* ... then, under svc.mtx: processRequest, results = append(results, p).
\* (~QOrphan: the demanded behaviour re-tests `running` under the mutex, as Exit drains under it.)
Append_(l) ==
    /\ lpc[l] = "append"
    /\ LET w == WorkerOf(l) IN
         IF ~QOrphan /\ ~wrun[w]
           THEN lpc' = [lpc EXCEPT ![l] = "stopped"] /\ UNCHANGED results
           ELSE /\ results' = [results EXCEPT ![w] = Append(@, l)]
                /\ lpc' = [lpc EXCEPT ![l] = "pending"]
    /\ UNCHANGED <<svars, wrun, cancelled, loop, spawned, wst, flush, portion, rst, dsn, hdr, lnode, lmode,
                   lpos, lseen, lw, oob, wdvars>>

-----------------------------------------------------------------------------
(* The Run goroutine of one worker *)

\* (the timer of an empty batch only causes an empty Swap, which PlanFlush reaches as well: left out)
TimerFire(w) ==
    /\ ~flush[w] /\ wrun[w] /\ results[w] # <<>>
    /\ flush' = [flush EXCEPT ![w] = TRUE]
    /\ UNCHANGED <<svars, wrun, cancelled, loop, spawned, wst, results, portion, pvars, wdvars>>

\* select chose <-svc.insertCtx.Done(): fetchLoopIteration starts (hook IterStart)
Wake(w) ==
    /\ loop[w] = "select" /\ flush[w]
    /\ loop' = [loop EXCEPT ![w] = "woken"]
    /\ UNCHANGED <<svars, wrun, cancelled, spawned, wst, flush, results, portion, pvars, wdvars>>

Resolve(ls, out) == TLCEval([l \in Leg |-> IF l \in ls /\ lpc[l] = "pending" THEN out ELSE lpc[l]])

\* select chose <-svc.ctx.Done(): running = false under svc.mtx, return.
\* QOrphan: svc.results is left as it is - the promises in it are never completed.
Exit(w) ==
    /\ loop[w] = "select" /\ cancelled[w]
    /\ loop' = [loop EXCEPT ![w] = "exited"]
    /\ wrun' = [wrun EXCEPT ![w] = FALSE]
    /\ IF QOrphan
         THEN UNCHANGED <<results, lpc>>
         ELSE /\ results' = [results EXCEPT ![w] = <<>>]
              /\ lpc' = Resolve(Range(results[w]), "stopped")
    /\ UNCHANGED <<svars, cancelled, spawned, wst, flush, portion, rst, dsn, hdr, lnode, lmode, lpos, lseen, lw,
                   oob, wdvars>>

\* V3Session() failed: sleep 1 s, return to the select; insertCtx stays done
ConnFail(w) ==
    /\ loop[w] = "woken"
    /\ loop' = [loop EXCEPT ![w] = "select"]
    /\ UNCHANGED <<svars, wrun, cancelled, spawned, wst, flush, results, portion, pvars, wdvars>>

\* swapBuffers under svc.mtx: new insertCtx; an empty batch ends the iteration
Swap(w) ==
    /\ loop[w] = "woken"
    /\ flush' = [flush EXCEPT ![w] = FALSE]
    /\ IF results[w] = <<>>
         THEN loop' = [loop EXCEPT ![w] = "select"] /\ UNCHANGED <<results, portion>>
         ELSE /\ portion' = [portion EXCEPT ![w] = results[w]]
              /\ results' = [results EXCEPT ![w] = <<>>]
              /\ loop' = [loop EXCEPT ![w] = "swapped"]
    /\ UNCHANGED <<svars, wrun, cancelled, spawned, wst, pvars, wdvars>>

SetInserting(w) ==
    /\ loop[w] = "swapped"
    /\ loop' = [loop EXCEPT ![w] = "doing"]
    /\ wst' = [wst EXCEPT ![w] = "INSERTING"]
    /\ UNCHANGED <<svars, wrun, cancelled, spawned, flush, results, portion, pvars, wdvars>>

\* client.Do returned (its context is a child of svc.ctx: Stop makes a real Do return); releaseWaiting(err)
DoReturn(w, ok) ==
    /\ loop[w] = "doing"
    /\ loop' = [loop EXCEPT ![w] = "released"]
    /\ lpc' = Resolve(Range(portion[w]), IF ok THEN "ok" ELSE "err")
    /\ portion' = [portion EXCEPT ![w] = <<>>]
    /\ UNCHANGED <<svars, wrun, cancelled, spawned, wst, flush, results, rst, dsn, hdr, lnode, lmode, lpos,
                   lseen, lw, oob, wdvars>>

SetIdle(w) ==
    /\ loop[w] = "released"
    /\ loop' = [loop EXCEPT ![w] = "select"]
    /\ wst' = [wst EXCEPT ![w] = "IDLE"]
    /\ UNCHANGED <<svars, wrun, cancelled, spawned, flush, results, portion, pvars, wdvars>>

\* Harness-only (not part of Next): svc.state is forced to INSERT_STATE_CLOSING, a value the code declares and
\* tests for but never stores; lets the selection run through its third branch.
ForceState(w, st) ==
    /\ loop[w] \in {"none", "select"} /\ st \in {"IDLE", "CLOSING"}
    /\ wst' = [wst EXCEPT ![w] = st]
    /\ UNCHANGED <<svars, wrun, cancelled, loop, spawned, flush, results, portion, pvars, wdvars>>

-----------------------------------------------------------------------------
LifeNext ==
    \/ \E sv \in Svc : MMInit(sv) \/ MMRun(sv) \/ StopCall(sv) \/ StopStep(sv) \/ PlanFlush(sv)
    \/ \E p \in Pool : RRRun(p)
PushNext ==
    \/ \E r \in Reqs, d \in Dsns, h \in Hdrs : \E nd \in [Kinds -> Nodes] : Route(r, d, h, nd)
    \/ \E l \in Leg : ReadState(l) \/ CheckRun(l) \/ Append_(l) \/ \E u \in 0..(RG - 1) : Pick(l, u)
WorkNext ==
    \E w \in WK : \/ TimerFire(w) \/ Wake(w) \/ Exit(w) \/ ConnFail(w) \/ Swap(w) \/ SetInserting(w)
                  \/ SetIdle(w) \/ \E ok \in BOOLEAN : DoReturn(w, ok)
Next == LifeNext \/ PushNext \/ WorkNext

Spec == Init /\ [][Next]_vars

\* Fairness: goroutines that can step do step, timers fire, the database answers every Do and accepts
\* connections eventually.  Init/Run/Stop/PlanFlush/Route are calls of the environment: no fairness,
\* except that a Stop call in progress finishes and a started RoundRobin.Run goroutine runs.
Fairness ==
    /\ \A sv \in Svc : WF_vars(StopStep(sv))
    /\ \A p \in Pool : WF_vars(RRRun(p))
    /\ \A l \in Leg : WF_vars(ReadState(l)) /\ WF_vars(CheckRun(l)) /\ WF_vars(Append_(l))
                      /\ WF_vars(\E u \in 0..(RG - 1) : Pick(l, u))
    /\ \A w \in WK : /\ WF_vars(TimerFire(w)) /\ WF_vars(Wake(w)) /\ WF_vars(Exit(w)) /\ SF_vars(Swap(w))
                     /\ WF_vars(SetInserting(w)) /\ WF_vars(SetIdle(w))
                     /\ WF_vars(\E ok \in BOOLEAN : DoReturn(w, ok))
FairSpec == Spec /\ Fairness

-----------------------------------------------------------------------------
(* Properties that hold whatever the quirks *)

\* the places (worker, batch or portion, position) where leg l is queued
PlacesOf(l) == UNION { { <<w, "b", i>> : i \in { j \in DOMAIN results[w] : results[w][j] = l } } \cup
                       { <<w, "p", i>> : i \in { j \in DOMAIN portion[w] : portion[w][j] = l } } : w \in WK }
Total(l) == Cardinality(PlacesOf(l))

\* a queued leg sits in ONE batch, and that batch belongs to a worker of the node the registry resolved,
\* of the leg's own kind and of the pool Multimodal.Request chose
QueuedOnceInItsPool ==
    \A l \in Leg :
       /\ Total(l) <= 1
       /\ \A pl \in PlacesOf(l) : LET w == pl[1] IN
                                       /\ w = WorkerOf(l)
                                       /\ w[1] = lnode[l] /\ w[2] = l[2] /\ w[3] = lmode[l]
\* pending <=> queued somewhere (a pending promise that sits in no batch could never complete)
PendingIffQueued == \A l \in Leg : (lpc[l] = "pending") <=> (Total(l) = 1)

\* a DSN that names a node is obeyed for every kind of the push: no push reaches another node's batch
NamedNodeObeyed ==
    \A l \in Leg : (dsn[l[1]] \in Nodes /\ lnode[l] # "none") => lnode[l] = dsn[l[1]]

\* the selection prefers workers seen INSERTING, then IDLE, else takes any; never indexes out of range
SelectionInRange == ~oob
PreferInserting ==
    \A l \in Leg : lw[l] > 0 =>
        /\ (SeenAs(l, "INSERTING") # {} => lseen[l][lw[l]] = "INSERTING")
        /\ (SeenAs(l, "INSERTING") = {} /\ SeenAs(l, "IDLE") # {} => lseen[l][lw[l]] = "IDLE")

\* Init and Run are idempotent: a worker never has two Run goroutines; nothing runs uninitialised
OneLoopPerWorker == \A w \in WK : spawned[w] <= 1
RunImpliesInit ==
    /\ \A sv \in Svc : mmRunning[sv] => inited[sv]
    /\ \A w \in WK : (loop[w] # "none" \/ wrun[w]) => inited[SvcOf(w)]

\* a promise is completed once; a push is routed once
Final == {"ok", "err", "stopped"}
PromiseOnce == [][\A l \in Leg : lpc[l] \in Final => lpc'[l] = lpc[l]]_vars
RoutedOnce  == [][\A r \in Reqs : rst[r] # "new" => (rst'[r] = rst[r] /\ dsn'[r] = dsn[r] /\ hdr'[r] = hdr[r])]_vars
\* a stopped worker is never restarted (RoundRobin.running is never reset: Run after Stop starts nothing)
ExitedForGood == [][\A w \in WK : loop[w] = "exited" => loop'[w] = "exited"]_vars

-----------------------------------------------------------------------------
(* Properties that hold only without the corresponding quirk *)

\* [QOrphan] when the Run goroutine of a worker has returned, no promise waits in the worker
NoOrphan == \A w \in WK : loop[w] = "exited" => (results[w] = <<>> /\ portion[w] = <<>>)
\* [QUnknownDsn] a DSN that names no node is refused: the push reaches nobody's batch
UnknownDsnRefused == \A r \in Reqs : (dsn[r] \notin Nodes /\ dsn[r] # "") => rst[r] # "routed"
\* [QSplit] all kinds of one push go to the same node
PushOnOneNode == \A l1, l2 \in Leg : (l1[1] = l2[1] /\ lnode[l1] # "none" /\ lnode[l2] # "none") => lnode[l1] = lnode[l2]
\* [QDefaultSync, QHeaderIgnored] the pool is the one the push named
NamedModeObeyed == \A l \in Leg : lmode[l] # "none" => lmode[l] = IntendedPool(lnode[l], hdr[l[1]])

\* [QOrphan] every accepted leg is completed once its worker's Run goroutine exists
EveryAcceptedCompletes ==
    \A l \in Leg : (lpc[l] = "pending" /\ loop[WorkerOf(l)] # "none") ~> (lpc[l] \in Final)
\* an undecided leg is decided
EveryLegDecided == \A l \in Leg : (lpc[l] \in {"read", "pick", "check", "append"}) ~> (lpc[l] \in Final \cup {"pending"})

-----------------------------------------------------------------------------
(***************************************************************************)
(* The watchdog (writer/watchdog/watchdog.go) and the Ping chain            *)
(*    InsertServiceV2.Ping:   error iff now - lastRequest >= 2*WT + 5       *)
(*    RoundRobin.Ping / Multimodal.Ping: error iff one worker reports one  *)
(*    watchdog.Init: every 5 s Check(); an error -> os.Exit(1)             *)
(*    watchdog.Check: `for maps { for services { _, err := Ping();         *)
(*                     if err != nil { return err } } }` - every service   *)
(*                     of every map is pinged.  [QWdFirst, retired: the    *)
(*                     loop returned after the FIRST service of the first  *)
(*                     non-empty map; Go map order picked the node]        *)
(* lastRequest of a worker is refreshed by Init, by a successful client    *)
(* Ping (every second while idle) and by EVERY return of client.Do.        *)
(* Time is counted in seconds; last[sv] is the oldest lastRequest of the   *)
(* workers of service sv.                                                  *)
(***************************************************************************)
CONSTANTS
    WT,           \* write timeout of the node in seconds
    MaxNow,       \* time bound of the model
    WdKinds,      \* sequence of kinds in the order watchdog.Init got the maps (TsSvcs first)
    QWdFirst      \* (retired) Check returns after the first service it pings

Threshold == 2 * WT + 5
Period    == 5
Stale(sv) == now - last[sv] >= Threshold
StaleSet  == { sv \in Svc : Stale(sv) }

\* time passes by one second; at a multiple of Period the Check of that instant is done first
WdTick ==
    /\ ~wdExited /\ now < MaxNow
    /\ (now > 0 /\ now % Period = 0) => wdDone
    /\ now' = now + 1 /\ wdDone' = FALSE
    /\ UNCHANGED <<last, up, wdExited, wdStaleAtExit, wdSkipped>>

\* a worker of sv refreshed lastRequest: its connection answered a ping or a Do returned
WdRefresh(sv) ==
    /\ ~wdExited /\ up[sv[1]] /\ last[sv] # now
    /\ last' = [last EXCEPT ![sv] = now]
    /\ UNCHANGED <<now, up, wdExited, wdStaleAtExit, wdSkipped, wdDone>>

WdDown(n) == /\ ~wdExited /\ up[n] /\ up' = [up EXCEPT ![n] = FALSE]
             /\ UNCHANGED <<now, last, wdExited, wdStaleAtExit, wdSkipped, wdDone>>
WdUp(n)   == /\ ~wdExited /\ ~up[n] /\ up' = [up EXCEPT ![n] = TRUE]
             /\ UNCHANGED <<now, last, wdExited, wdStaleAtExit, wdSkipped, wdDone>>

\* the services one Check looks at: all of them, or [QWdFirst] one service of the first kind (nd = Go's map order)
WdLooksAt(nd) == IF QWdFirst THEN { <<nd, WdKinds[1]>> } ELSE Svc

\* the verdict of one Check when the services in S are stale: TRUE = error = os.Exit(1)
WdVerdict(nd, S) == WdLooksAt(nd) \cap S # {}

WdCheck(nd) ==
    /\ ~wdExited /\ ~wdDone /\ now > 0 /\ now % Period = 0 /\ nd \in Nodes
    /\ (~QWdFirst => nd = CHOOSE n \in Nodes : TRUE)
    /\ wdDone' = TRUE
    /\ IF WdVerdict(nd, StaleSet)
         THEN wdExited' = TRUE /\ wdStaleAtExit' = StaleSet /\ UNCHANGED wdSkipped
         ELSE /\ wdSkipped' = wdSkipped \cup StaleSet     \* stale services this Check did not report
              /\ UNCHANGED <<wdExited, wdStaleAtExit>>
    /\ UNCHANGED <<now, last, up>>

WdNext ==
    \/ WdTick
    \/ \E nd \in Nodes : WdCheck(nd)
    \/ \E sv \in Svc : WdRefresh(sv)
    \/ \E n \in Nodes : WdDown(n) \/ WdUp(n)
WdSpec == Init /\ [][WdNext /\ UNCHANGED <<svars, wvars, pvars>>]_vars

\* the process is terminated only when a service really was stale (no exit while pings/inserts succeed:
\* a service refreshed within the last Threshold seconds is not stale)
WdExitOnlyIfStale == wdExited => wdStaleAtExit # {}
\* [QWdFirst] a Check never passes over a stale service: the process is gone at most one Period after a
\* service went stale (the database of a node is gone => every service of the node goes stale)
WdNoStaleSkipped == wdSkipped = {}
WdExitWithinPeriod == \A sv \in Svc : ~wdExited => now - last[sv] < Threshold + Period
=============================================================================

SPECIFICATION Spec
CONSTANTS
  Reqs = {r1, r2, r3}
  Svcs = {"spl"}
  Workers = {1}
  MaxRows = 2
  MaxAttempts = 3
  MaxQueue = 2
  Sibling <- SibNone
INVARIANTS TypeOK AckImpliesInserted PromiseOkImpliesInserted ExhaustedImpliesError BatchMatchesResults PortionMatchesResults NoRowTwice PendingIsQueued
PROPERTIES PromiseOnce AtMostOneReply
CHECK_DEADLOCK FALSE

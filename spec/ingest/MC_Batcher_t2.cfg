SPECIFICATION Spec
CONSTANTS
  Reqs = {r1, r2}
  Svcs = {"ts", "spl"}
  Workers = {1, 2}
  MaxRows = 1
  MaxAttempts = 1
  MaxQueue = 1
  Sibling <- SibLogs
INVARIANTS TypeOK AckImpliesInserted PromiseOkImpliesInserted ExhaustedImpliesError BatchMatchesResults PortionMatchesResults NoRowTwice PendingIsQueued
PROPERTIES PromiseOnce AtMostOneReply
CHECK_DEADLOCK FALSE

------------------------------- MODULE Chunker -------------------------------
(***************************************************************************)
(* Decoding of a log/metric push body into insert requests ("chunks"):     *)
(*   writer/utils/unmarshal/*.go        Decode(): one onEntries callback   *)
(*        per stream (Loki JSON / protobuf, Datadog), per record (Influx,  *)
(*        OTLP logs), or per series with a flush every L points            *)
(*        (Prometheus remote write, metricsProtobuf.go)                    *)
(*   writer/utils/unmarshal/builder.go  onEntries: append the parallel     *)
(*        arrays, announce the series once per (day, fingerprint), flush   *)
(*        the chunk when it grows above the size threshold; final flush    *)
(* An entry is <<stream, index>>.  The per-row arrays of a chunk are       *)
(* modelled separately (rows = timestamps/messages/values/fingerprints,    *)
(* types) because the decoders pass them separately.                       *)
(* Label sets.  A stream may carry the retention pseudo label (ttl): the   *)
(* callback strips it, it is not part of the stream.  The entries handed   *)
(* over by ONE container of a per-entry decoder (the fields of an Influx   *)
(* line, the records of an OTLP scope) may belong to DIFFERENT label sets  *)
(* (mix): the container's labels plus entry-level labels that only every   *)
(* other entry carries.  Every row carries the fingerprint (= label set    *)
(* identity) the callback computed for it; Faithful demands the label set  *)
(* of the entry itself, whatever was handed over before it.                *)
(* Thresholds are scaled: L points (code: 1000), size limit S units        *)
(* (code: 1 MiB); the concretiser scales counts and sizes back.            *)
(***************************************************************************)
EXTENDS Integers, Sequences, FiniteSets, TLC

CONSTANTS
    MaxStreams,     \* streams per body
    Counts,         \* possible entry counts of a stream, e.g. {0,1,2,3,4,7}
    Sizes,          \* possible entry size classes in units, e.g. {0,1,3,5}
    L,              \* points limit of the remote-write decoder
    S,              \* chunk size limit in units
    Kinds,          \* decoder kinds: "perstream", "perentry", "prom"
    Pseudo,         \* \subseteq BOOLEAN: may a stream carry the retention pseudo label
    Mixes,          \* \subseteq BOOLEAN: may the entries of one container alternate between two label sets
    PanicOnEmpty, TypesOfWholeSeries,  \* named deviations of earlier code (both FALSE for the current tree)
    LeakLabels      \* named deviation FAMILY: label state of a container survives from one callback to the next
                    \* (labels filtered/extended in place, attribute map shared): FALSE for the current tree

VARIABLES
    kind,       \* decoder kind of this body
    body,       \* Seq of [n: count, sz: size class, dup: BOOLEAN (same label set as stream 1),
                \*         ttl: BOOLEAN (carries the pseudo label), mix: BOOLEAN (entries alternate between 2 label sets)]
    si, ei,     \* decoder position: stream index, entries of the stream already handed over
    points,     \* remote-write points counter
    pend,       \* entries of the current series collected but not yet handed to onEntries (prom)
    rows,       \* open chunk: entries (timestamps/messages/values/fingerprints arrays)
    ntypes,     \* open chunk: length of the types array
    series,     \* open chunk: streams announced in it
    size,       \* open chunk: accounted size
    seen,       \* fingerprint cache: streams already announced
    out,        \* emitted chunks: Seq of [rows, ntypes, series]
    pc          \* "decode" | "done" | "panic"

vars == <<kind, body, si, ei, points, pend, rows, ntypes, series, size, seen, out, pc>>

Stream == [n : Counts, sz : Sizes, dup : BOOLEAN, ttl : Pseudo, mix : Mixes]
Bodies == UNION { [1..k -> Stream] : k \in 1..MaxStreams }

\* a body that crosses the points threshold uses tiny entries only (keeps concrete bodies small)
\* the label-set classes use tiny entries too; entry-level label sets exist in per-entry decoders only and need 2 entries
Sane(k, b) == \A i \in DOMAIN b :
    /\ (b[i].n > 2 => b[i].sz = 0) /\ (i = 1 => ~b[i].dup)
    /\ ((b[i].ttl \/ b[i].mix) => b[i].sz = 0)
    /\ (b[i].mix => (k = "perentry" /\ b[i].n >= 2))

Init ==
    /\ kind \in Kinds
    /\ body \in {b \in Bodies : Sane(kind, b)}
    /\ si = 1 /\ ei = 0 /\ points = 0 /\ pend = <<>>
    /\ rows = <<>> /\ ntypes = 0 /\ series = {} /\ size = 0 /\ seen = {}
    /\ out = <<>> /\ pc = "decode"

Key(i) == IF body[i].dup THEN 1 ELSE i            \* label set identity of stream i (the pseudo label is not part of it)
\* label set identity of entry j of stream i: the stream's labels plus the entry-level labels ("full", 1);
\* in a mixed container every second entry lacks the entry-level labels ("bare", 0)
LS(i, j) == <<Key(i), IF body[i].mix THEN j % 2 ELSE 1>>
\* what the callback fingerprints for entry j of stream i.  Current tree: the labels handed over, minus the pseudo label.
\* LeakLabels: the label state left by the previous callback of the same container (it shows when the pseudo label had
\* to be stripped or when the previous entry had labels this one lacks).
Fp(i, j) == IF LeakLabels /\ j > 1 /\ (body[i].ttl \/ body[i].mix)
              THEN <<Key(i), IF body[i].mix THEN 2 ELSE 3>>      \* a label set nobody submitted
              ELSE LS(i, j)
Ent(i, from, to) == [j \in 1..(to - from + 1) |-> <<i, from + j - 1>>]
Rows(es) == [x \in DOMAIN es |-> <<es[x][1], es[x][2], Fp(es[x][1], es[x][2])>>]

Flush ==
    /\ out' = Append(out, [rows |-> rows, ntypes |-> ntypes, series |-> series])
    /\ rows' = <<>> /\ ntypes' = 0 /\ series' = {} /\ size' = 0

\* builder.go onEntries(labels of stream i, entries es, a types array of length nt)
\* A callback without entries appends nothing and announces nothing (no sample => no day => no series row).
\* (Before fix 3d36823 fastFillArray(0) indexed res[0] and the callback panicked; PanicOnEmpty = TRUE models that.)
OnEntries(i, es, nt) ==
    IF Len(es) = 0
      THEN IF PanicOnEmpty
             THEN pc' = "panic" /\ UNCHANGED <<rows, ntypes, series, size, seen, out>>
             ELSE /\ ntypes' = ntypes + nt
                  /\ UNCHANGED <<rows, series, size, seen, out, pc>>
      ELSE LET ls == Fp(i, es[1][2])      \* one callback = one label set (mixed containers hand over entry by entry)
               announce == ls \notin seen
               nsize == size + Len(es) * body[i].sz
               nrows == rows \o Rows(es)
               nser == IF announce THEN series \cup {ls} ELSE series
           IN /\ seen' = seen \cup {ls}
              /\ IF nsize > S
                   THEN /\ out' = Append(out, [rows |-> nrows, ntypes |-> ntypes + nt, series |-> nser])
                        /\ rows' = <<>> /\ ntypes' = 0 /\ series' = {} /\ size' = 0
                   ELSE /\ rows' = nrows /\ ntypes' = ntypes + nt /\ series' = nser /\ size' = nsize
                        /\ UNCHANGED out
              /\ UNCHANGED pc

\* Loki JSON / protobuf, Datadog: one callback per stream with all its entries
StepPerStream ==
    /\ kind = "perstream" /\ pc = "decode" /\ ei = 0
    /\ OnEntries(si, Ent(si, 1, body[si].n), body[si].n)
    /\ ei' = 1 /\ UNCHANGED <<si, pend, points, kind, body>>

\* Influx, OTLP logs: one callback per entry
StepPerEntry ==
    /\ kind = "perentry" /\ pc = "decode" /\ ei < body[si].n
    /\ OnEntries(si, Ent(si, ei + 1, ei + 1), 1)
    /\ ei' = ei + 1 /\ UNCHANGED <<si, pend, points, kind, body>>

\* metricsProtobuf.go: collect the samples of the series; every L points hand over what was collected
\* with a types array as long as what was collected (before fix ea5ef3a: as long as the WHOLE series,
\* fastFillArray(len(ts.GetSamples())); TypesOfWholeSeries = TRUE models that).
StepProm ==
    /\ kind = "prom" /\ pc = "decode" /\ ei < body[si].n
    /\ LET p == Append(pend, <<si, ei + 1>>) IN
         IF points + 1 >= L
           THEN /\ OnEntries(si, p, IF TypesOfWholeSeries THEN body[si].n ELSE Len(p))
                /\ points' = 0 /\ pend' = <<>>
           ELSE /\ points' = points + 1 /\ pend' = p
                /\ UNCHANGED <<rows, ntypes, series, size, seen, out, pc>>
    /\ ei' = ei + 1 /\ UNCHANGED <<si, kind, body>>

\* end of a series in the remote-write decoder: hand over the rest
PromEndSeries ==
    /\ kind = "prom" /\ pc = "decode" /\ ei = body[si].n /\ pend # <<>>
    /\ OnEntries(si, pend, Len(pend))
    /\ pend' = <<>> /\ UNCHANGED <<si, ei, points, kind, body>>

StreamDone ==
    CASE kind = "perstream" -> ei = 1
      [] kind = "perentry" -> ei = body[si].n
      [] kind = "prom" -> ei = body[si].n /\ pend = <<>>

Advance ==
    /\ pc = "decode" /\ StreamDone /\ si < Len(body)
    /\ si' = si + 1 /\ ei' = 0
    /\ UNCHANGED <<kind, body, points, pend, rows, ntypes, series, size, seen, out, pc>>

\* Decode returned: final flush (always sends a chunk, possibly empty)
Finish ==
    /\ pc = "decode" /\ StreamDone /\ si = Len(body)
    /\ Flush /\ pc' = "done"
    /\ UNCHANGED <<kind, body, si, ei, points, pend, seen>>

Next == StepPerStream \/ StepPerEntry \/ StepProm \/ PromEndSeries \/ Advance \/ Finish
Spec == Init /\ [][Next]_vars

-----------------------------------------------------------------------------
RECURSIVE FlatRows(_)
FlatRows(o) == IF o = <<>> THEN <<>> ELSE Head(o).rows \o FlatRows(Tail(o))

RECURSIVE AllEntries(_)
AllEntries(i) == IF i > Len(body) THEN <<>>
                 ELSE [j \in 1..body[i].n |-> <<i, j, LS(i, j)>>] \o AllEntries(i + 1)

\* every chunk is rectangular: the types array is as long as the other per-row arrays  (C02's ShapeOK)
ShapeOK == \A k \in DOMAIN out : out[k].ntypes = Len(out[k].rows)

\* a well-formed body is never answered with an error
NoPanic == pc # "panic"

\* when decoding is done, the chunks hold exactly the submitted entries, once each, in order, each with the
\* fingerprint of its OWN label set
Faithful == pc = "done" => FlatRows(out) = AllEntries(1)

\* every label set is announced before or together with its first entry
RECURSIVE Announced(_)
Announced(o) == IF o = <<>> THEN {} ELSE Head(o).series \cup Announced(Tail(o))
SeriesAnnounced ==
    pc = "done" => \A k \in DOMAIN out : \A j \in DOMAIN out[k].rows :
        out[k].rows[j][3] \in Announced(SubSeq(out, 1, k))
=============================================================================

----------------------------- MODULE ColumnFill -----------------------------
(***************************************************************************)
(* Column grain of one insert service with several sub-services            *)
(* (writer/service/genericInsertService.go: InsertServiceV2Multimodal ->   *)
(* sync + async InsertServiceV2RoundRobin -> ParallelNum InsertServiceV2). *)
(* Batcher.tla appends all columns of a request in ONE step to batch[wk];  *)
(* here the ProcessRequest callback of impl/*InsertService.go is opened    *)
(* up: it runs under the mutex of ONE sub-service, binds a column handle   *)
(* (the *Acquirer struct, `deserialize(res)`) and then appends column by   *)
(* column THROUGH that handle.  The mutexes of different sub-services do   *)
(* not exclude each other, so everything the callback reaches must belong  *)
(* to the call (HandleScope = "call", the code) - a handle living as long  *)
(* as the service (HandleScope = "service": a struct/closure variable      *)
(* created once in New*InsertService and shared by all sub-services) is    *)
(* refuted by TLC.  The counterexample names what a schedule needs to show *)
(* it: two DIFFERENT sub-services of the same service inside ProcessRequest*)
(* at the same time - the schedule class the binding (c02blocks, phase     *)
(* "subsvc") realises on every real insert service.                        *)
(***************************************************************************)
EXTENDS Integers, Sequences, FiniteSets, TLC

CONSTANTS
    Subs,        \* sub-services of one insert service (sync and async workers)
    NCols,       \* number of columns of the table
    Reqs,        \* requests
    MaxRows,     \* a request carries 1..MaxRows rows
    HandleScope  \* "call" | "service"

Cols == 1..NCols
EmptyBuf == [c \in Cols |-> <<>>]
Idle == 0 - 2
BindPc == 0 - 1
DonePc == NCols + 2

VARIABLES
    lock,     \* [Subs -> Reqs \cup {"none"}]  svc.mtx of each sub-service
    buf,      \* [Subs -> [Cols -> Seq(row)]]  svc.columns: the open column buffers
    res,      \* [Subs -> Seq(Reqs)]           svc.results: promises of the open batch
    pc,       \* [Reqs -> {Idle, BindPc} \cup Cols \cup {NCols+1, DonePc}]  (integers: TLC compares no strings with numbers)
    at,       \* [Reqs -> Subs \cup {0}]  sub-service chosen by the round robin
    nrows,    \* [Reqs -> 0..MaxRows]
    hcall,    \* [Reqs -> Subs \cup {0}]  handle of the call: whose buffers it points at
    hsvc,     \* Subs \cup {0}                 handle shared by the whole service
    sent      \* set of blocks given to client.Do: [cols: [Cols -> Seq(row)], res: Seq(Reqs)]

vars == <<lock, buf, res, pc, at, nrows, hcall, hsvc, sent>>

RowSeq(r) == [i \in 1..nrows[r] |-> <<r, i>>]
RECURSIVE Flat(_)
Flat(rs) == IF rs = <<>> THEN <<>> ELSE RowSeq(Head(rs)) \o Flat(Tail(rs))

Init ==
    /\ lock = [w \in Subs |-> "none"]
    /\ buf = [w \in Subs |-> EmptyBuf]
    /\ res = [w \in Subs |-> <<>>]
    /\ pc = [r \in Reqs |-> Idle]
    /\ at = [r \in Reqs |-> 0]
    /\ nrows = [r \in Reqs |-> 0]
    /\ hcall = [r \in Reqs |-> 0]
    /\ hsvc = 0
    /\ sent = {}

\* InsertServiceV2.Request: svc.mtx.Lock() of the sub-service the round robin picked
Lock(r, w, n) ==
    /\ pc[r] = Idle /\ lock[w] = "none"
    /\ lock' = [lock EXCEPT ![w] = r]
    /\ at' = [at EXCEPT ![r] = w]
    /\ nrows' = [nrows EXCEPT ![r] = n]
    /\ pc' = [pc EXCEPT ![r] = BindPc]
    /\ UNCHANGED <<buf, res, hcall, hsvc, sent>>

\* ProcessRequest: acquirer.deserialize(res) - the handle now points at the buffers of at[r]
Bind(r) ==
    /\ pc[r] = BindPc
    /\ IF HandleScope = "call"
         THEN hcall' = [hcall EXCEPT ![r] = at[r]] /\ UNCHANGED hsvc
         ELSE hsvc' = at[r] /\ UNCHANGED hcall
    /\ pc' = [pc EXCEPT ![r] = 1]
    /\ UNCHANGED <<lock, buf, res, at, nrows, sent>>

Target(r) == IF HandleScope = "call" THEN hcall[r] ELSE hsvc

\* ProcessRequest: one `for ... Append` loop = one column, through the handle
AppendCol(r) ==
    /\ pc[r] \in Cols
    /\ LET c == pc[r]
           t == Target(r)
       IN buf' = [buf EXCEPT ![t][c] = @ \o RowSeq(r)]
    /\ pc' = [pc EXCEPT ![r] = pc[r] + 1]
    /\ UNCHANGED <<lock, res, at, nrows, hcall, hsvc, sent>>

\* Request: svc.results = append(svc.results, p); svc.mtx.Unlock()
Unlock(r) ==
    /\ pc[r] = NCols + 1
    /\ res' = [res EXCEPT ![at[r]] = Append(@, r)]
    /\ lock' = [lock EXCEPT ![at[r]] = "none"]
    /\ pc' = [pc EXCEPT ![r] = DonePc]
    /\ UNCHANGED <<buf, at, nrows, hcall, hsvc, sent>>

\* swapBuffers (one critical section under svc.mtx) followed by client.Do of the swapped columns
Swap(w) ==
    /\ lock[w] = "none" /\ res[w] # <<>>
    /\ sent' = sent \cup {[cols |-> buf[w], res |-> res[w]]}
    /\ buf' = [buf EXCEPT ![w] = EmptyBuf]
    /\ res' = [res EXCEPT ![w] = <<>>]
    /\ UNCHANGED <<lock, pc, at, nrows, hcall, hsvc>>

Next ==
    \/ \E r \in Reqs, w \in Subs, n \in 1..MaxRows : Lock(r, w, n)
    \/ \E r \in Reqs : Bind(r) \/ AppendCol(r) \/ Unlock(r)
    \/ \E w \in Subs : Swap(w)

Spec == Init /\ [][Next]_vars

\* C02, first sentence: same number of values in every column
Rectangular == \A b \in sent : \A c \in Cols : Len(b.cols[c]) = Len(b.cols[1])
\* every row is one submitted row, all fields from that same row (every column carries the row id here)
WholeRows == \A b \in sent : \A c \in Cols : \A i \in 1..Len(b.cols[c]) :
                 i <= Len(b.cols[1]) => b.cols[c][i] = b.cols[1][i]
\* no row left out of / foreign to the block whose outcome is reported to its request, none twice
BlockIsItsRequests == \A b \in sent : \A c \in Cols : b.cols[c] = Flat(b.res)
=============================================================================

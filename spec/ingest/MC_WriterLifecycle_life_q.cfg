SPECIFICATION Spec
CONSTANTS
  Nodes <- N1
  AsyncNodes <- NoNodes
  Kinds = {"spl"}
  ParallelNum = 1
  Reqs = {r1, r2}
  Dsns = {"n1"}
  Hdrs = {"0", "1"}
  ViaHTTP = FALSE
  RG = 2
  QOrphan = TRUE
  QUnknownDsn = TRUE
  QSplit = FALSE
  QDefaultSync = TRUE
  QHeaderIgnored = TRUE
  WT = 1
  MaxNow = 0
  WdKinds <- WdKindsOne
  QWdFirst = FALSE
INVARIANTS TypeOK QueuedOnceInItsPool PendingIffQueued NamedNodeObeyed SelectionInRange PreferInserting OneLoopPerWorker RunImpliesInit
PROPERTIES PromiseOnce RoutedOnce ExitedForGood
CHECK_DEADLOCK FALSE

---- MODULE MC_SeriesIndex ----
EXTENDS SeriesIndex
OffM5 == -5
====

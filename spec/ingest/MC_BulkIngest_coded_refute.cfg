SPECIFICATION Spec
CONSTANTS
  Targets = {"t1", "t2"}
  MaxLines = 3
  MaxSeries = 2
  MaxMalformed = 2
  S = 99
  MaxClock = 0
  Protos = {"bulk", "doc", "cf", "ddm"}
  Vias = {"parser", "route"}
  QPathLost = TRUE
  QPathWins = TRUE
  QDocKey = TRUE
  QLongStops = TRUE
  QCfBlank = TRUE
  QDdTags = TRUE
INVARIANTS AckedMeansStored

CHECK_DEADLOCK FALSE

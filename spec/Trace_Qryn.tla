----------------------------- MODULE Trace_Qryn -----------------------------
(* Trace validation for Qryn: a free-running mixed workload (pushes of all four signals under a per-table fault    *)
(* plan, retries, cache resets, queries through every read endpoint) recorded by `x02 record` from the REAL writer   *)
(* routes, insert services, store and reader routes must be a behaviour of Qryn (constants "as coded"): every       *)
(* status the client saw and every answer an endpoint gave must be the status / answer of the model in that state.  *)
(* The inputs of a step (items, fault plan, malformed tail, lost answer, endpoint, key, window) are taken from the   *)
(* event; its observable result is compared.  Several workloads are concatenated, separated by "reset" events.      *)
EXTENDS Qryn, Json, TLCExt, Sequences

TraceLog == ndJsonDeserialize("trace.ndjson")
VARIABLE l
tvars == <<vars, l>>

Ev == TraceLog[l]
More == l <= Len(TraceLog)
Is(e) == More /\ Ev.ev = e
Consume == l' = l + 1
ToSet(s) == {s[i] : i \in DOMAIN s}

TraceInit == Init /\ l = 1

TraceReset ==
    /\ Is("reset") /\ Consume
    /\ cache' = {} /\ poison' = {} /\ skipped' = {} /\ series' = {} /\ samples' = {} /\ spans' = {} /\ attrs' = {} /\ profs' = {}
    /\ landed' = {} /\ open' = {} /\ acked' = {} /\ ackedRetry' = {} /\ today' = 0
    /\ n' = [push |-> 0, fault |-> 0, retry |-> 0, clear |-> 0, lost |-> 0, bad |-> 0, query |-> 0]
    /\ last' = Last("init", "", "", 0, <<0, 0>>, NoAns)
    /\ turn' = turn /\ view' = view /\ blame' = blame

TracePush ==
    /\ Is("push") /\ Consume
    /\ Push(Ev.sig, ToSet(Ev.items), ToSet(Ev.fail), Ev.bad, Ev.lost)
    /\ last'.status = Ev.status

TraceRetry ==
    /\ Is("retry") /\ Consume
    /\ Retry(Ev.sig, ToSet(Ev.items), ToSet(Ev.fail))
    /\ last'.status = Ev.status

\* (the model's CacheClear is guarded by a non-empty cache only to avoid useless steps; a recorded reset is taken as is)
TraceClear ==
    /\ Is("clear") /\ Consume
    /\ cache' = {} /\ poison' = {}
    /\ n' = [n EXCEPT !.clear = @ + 1]
    /\ last' = Last("clear", "", "", 0, <<0, 0>>, NoAns)
    /\ UNCHANGED <<skipped, series, samples, spans, attrs, profs, landed, open, acked, ackedRetry, today, turn, view, blame>>
TraceRollover == Is("rollover") /\ Consume /\ Rollover

TraceQuery ==
    /\ Is("query") /\ Consume
    /\ Query(Ev.ep, Ev.key, <<Ev.from, Ev.to>>)
    /\ last'.ans = ToSet(Ev.ans)

TraceNext == TraceReset \/ TracePush \/ TraceRetry \/ TraceClear \/ TraceRollover \/ TraceQuery
TraceSpec == TraceInit /\ [][TraceNext]_tvars

Accept == (l = Len(TraceLog) + 1) => (PrintT("TRACE-ACCEPTED") /\ TLCSet("exit", TRUE))
HW == TLCGetOrDefault(1, 0)
HighWaterPrint == (l > HW) => (PrintT(<<"HW", l>>) /\ TLCSet(1, l))
=============================================================================

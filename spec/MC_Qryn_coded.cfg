SPECIFICATION Spec
CONSTANTS
  Signals = {"logs", "metrics", "traces", "profiles"}
  Keys = {1, 2}
  Slots = {0, 1, 2}
  SlotsPerDay = 2
  MaxPushes = 4
  MaxItems = 2
  MaxFaults = 2
  MaxRetries = 2
  MaxClears = 1
  MaxLost = 1
  MaxBad = 1
  MaxQueries = 2
  CacheSetBeforeInsert = FALSE
  CacheKeyIgnoresType = FALSE
  ReaderFiltersType = TRUE
  Guided = TRUE
  ExportView = TRUE
INVARIANTS TypeOK RefusedResidue NoPhantom SearchImpliesFetch NoCrossSignal AckedStored
CHECK_DEADLOCK FALSE
